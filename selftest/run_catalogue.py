#!/usr/bin/env python3
"""Runs every catalogue entry against every property it names (in parallel), prints the matrix and writes
selftest/last_results.json.  Usage: selftest/run_catalogue.py [catalogue.json] [--jobs N] [--props C01,C02]"""
import json
import os
import sys
from concurrent.futures import ThreadPoolExecutor

sys.path.insert(0, os.path.dirname(os.path.abspath(__file__)))
import mutate  # noqa: E402


def main():
    cat = 'selftest/catalogue.json'
    jobs = 3
    props = None
    a = sys.argv[1:]
    while a:
        x = a.pop(0)
        if x == '--jobs':
            jobs = int(a.pop(0))
        elif x == '--props':
            props = set(a.pop(0).split(','))
        else:
            cat = x
    ents = json.load(open(cat))
    work = [(e, p) for e in ents for p in e.get('props', []) if props is None or p in props]

    def one(w):
        e, p = w
        r = mutate.run_one(p, e)
        r['prop'] = p
        r['expect'] = e.get('expect', 'violation')
        r['source'] = ('proof' if any('bounded' not in l for l in r.get('lines', []) if l.startswith('VIOLATION')) else 'bounded') if r['status'] == 'violation' else None
        return r
    with ThreadPoolExecutor(max_workers=jobs) as ex:
        res = list(ex.map(one, work))
    miss = 0
    for r in res:
        ok = r['status'] == r['expect']
        miss += 0 if ok else 1
        print('%-4s %-4s %-42s %-10s %-8s %s' % ('ok' if ok else 'MISS', r['prop'], r['name'], r['status'], r.get('source') or '', (r['lines'][0][:90] if r.get('lines') else '')))
    out = 'last_results.json' if os.path.basename(cat) == 'catalogue.json' else 'last_' + os.path.basename(cat)
    if props is None:
        json.dump(res, open(os.path.join(mutate.VERIF, 'selftest', out), 'w'), indent=1)
    print('entries x properties: %d, not as expected: %d' % (len(res), miss))
    return 1 if miss else 0


if __name__ == '__main__':
    sys.exit(main())
