#!/usr/bin/env python3
"""Deliberate-breakage harness (DESIGN 2.7): apply one textual edit to a scratch copy of /repo's working tree
(outside /repo and /verif, removed afterwards), run a check against it, report whether it raised an alarm.

  selftest/mutate.py <prop> <catalogue.json> [--only name] [--tier quick] [--args ...]

catalogue entries: {"name":..., "file": "bronzebeard/asm.py", "old": "...", "new": "...", "expect": "violation"|"held",
                    "props": ["C01", ...]}
"""
import json
import os
import shutil
import subprocess
import sys
import tempfile

VERIF = os.path.dirname(os.path.dirname(os.path.abspath(__file__)))
REPO = os.environ.get('BRONZEBEARD_REPO', '/repo')


def run_one(prop, ent, tier='quick', extra=()):
    d = tempfile.mkdtemp(prefix='bbmut_')
    try:
        shutil.copytree(os.path.join(REPO, 'bronzebeard'), os.path.join(d, 'bronzebeard'), ignore=shutil.ignore_patterns('__pycache__'))
        if 'patch' in ent:
            pfile = ent['patch'] if os.path.isabs(ent['patch']) else os.path.join(VERIF, ent['patch'])
            pr = subprocess.run(['patch', '-p1', '-s', '-d', d, '-i', pfile], capture_output=True, text=True)
            if pr.returncode != 0:
                return {'name': ent['name'], 'status': 'edit-does-not-apply', 'lines': [pr.stdout[-200:]]}
        for e in ([] if 'patch' in ent else ([ent] if 'old' in ent else ent['edits'])):
            p = os.path.join(d, e.get('file', ent.get('file', 'bronzebeard/asm.py')))
            s = open(p).read()
            if s.count(e['old']) < 1:
                return {'name': ent['name'], 'status': 'edit-does-not-apply'}
            s = s.replace(e['old'], e['new'], e.get('count', 1))
            open(p, 'w').write(s)
        env = dict(os.environ)
        env['BRONZEBEARD_REPO'] = d
        env['VERIF_EVIDENCE_SUFFIX'] = '.mut'
        env['VERIF_REPLAY_DIR'] = os.path.join(d, 'replays')
        p = subprocess.run([os.path.join(VERIF, 'check'), prop, '--tier', tier] + list(extra), capture_output=True, text=True, env=env,
                           cwd=VERIF)
        lines = [l for l in p.stdout.splitlines() if l.startswith(('VIOLATION', 'UNDECIDED', 'CHECK-ERROR', 'KNOWN'))]
        status = {0: 'held', 1: 'violation', 2: 'undecided', 3: 'error'}.get(p.returncode, 'exit%d' % p.returncode)
        return {'name': ent['name'], 'status': status, 'lines': lines[:6], 'n_lines': len(lines),
                'tail': p.stdout[-300:] if status in ('error',) else '', 'stderr': p.stderr[-300:] if status == 'error' else ''}
    finally:
        shutil.rmtree(d, ignore_errors=True)
        # replay files written for the mutant are not evidence about /repo
        rp = os.path.join(VERIF, 'replays')
        ev = os.path.join(VERIF, 'evidence', prop + '.mut.json')
        if os.path.exists(ev):
            os.unlink(ev)


def main():
    prop, cat = sys.argv[1], sys.argv[2]
    only = None
    extra = []
    tier = 'quick'
    a = sys.argv[3:]
    while a:
        x = a.pop(0)
        if x == '--only':
            only = a.pop(0)
        elif x == '--tier':
            tier = a.pop(0)
        else:
            extra.append(x)
    ents = json.load(open(cat))
    bad = 0
    for ent in ents:
        if only and ent['name'] != only:
            continue
        if 'props' in ent and prop not in ent['props']:
            continue
        r = run_one(prop, ent, tier, extra)
        ok = r['status'] == ent.get('expect', 'violation')
        bad += 0 if ok else 1
        print('%-4s %-40s %-10s (expect %s) %s' % ('ok' if ok else 'MISS', ent['name'], r['status'], ent.get('expect', 'violation'),
                                                   (r['lines'][0][:110] if r['lines'] else r.get('tail', '')[:200])))
        if r['status'] == 'error':
            print(r.get('stderr'))
    return 1 if bad else 0


if __name__ == '__main__':
    sys.exit(main())
