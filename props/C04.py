"""C04 - enabling compression never changes what the program means."""
from props import common

LEVEL = 'proof'


def build(ctx):
    ctx.task('contracts.pipeline:task_pipeline')      # assemble() establishes what each pass contract assumes
    from contracts import compress
    compress.lemma_obligations(ctx)
    common.pass_tasks(ctx, ['transform_compressible', 'resolve_immediates'])
    common.encoder_tasks(ctx, lambda m: m.startswith('c.'), parts=('legal', 'decode'))
    ctx.assume('literal operands: the immediate value at compression time is the final one; label-dependent immediates are covered by '
               'the shrink argument of C03 and by the bounded tier only')
    ctx.trust(common.TRUST_BOUNDED)


def bounded(ctx):
    common.suites(ctx, ['cedge', 'mix', 'dist', 'far', 'pseudo', 'li', 'data', 'rand', 'val', 'hilo'], {'modes', 'decode'})
    ctx.task('bounded.tasks:split_task', 'cedge')
    ctx.task('bounded.tasks:split_task', 'mix')


def explanation(ctx):
    return ('PROVED per rule and path of the real criteria table and construction chain: the item built, expanded by the RVC tables, is the '
            'original instruction operand by operand (c.mv from addi rd, rs, 0: equal effect on every register file); its operands are legal '
            'for the c.* encoder; the jalr half of a far call/tail is never compressed; non-instruction items are appended unchanged (data '
            'frame); only the label shrink touches the label table; c.* encode/decode contracts. BOUNDED: both modes on generated programs, '
            'every 16-bit parcel expanded and compared with the 32-bit instruction of the same line, data bytes equal.')
