"""shared scheduling helpers for the property modules"""
from contracts import encoders as E

LAYOUT_PASSES = ['resolve_labels', 'transform_compressible', 'transform_pseudo_instructions', 'resolve_aligns', 'resolve_immediates']


def encoder_tasks(ctx, pred, parts=('legal', 'decode', 'inj'), reverse=False):
    ctx.task('contracts.encoders:task_lookup_register')
    for m in E.mnemonics_from_source(ctx):
        if pred(m):
            ctx.task('contracts.encoders:task_encoder', m, parts)
            if reverse and m.startswith('c.'):
                ctx.task('contracts.encoders:task_reverse', m)


def pass_tasks(ctx, passes=LAYOUT_PASSES):
    for p in passes:
        ctx.task('contracts.passes:task_layout_pass', p)


def suites(ctx, names, checks):
    for n in names:
        ctx.task('bounded.tasks:suite_task', n, sorted(checks))


TRANSFER_MNEMONICS = {'beq', 'bne', 'blt', 'bge', 'bltu', 'bgeu', 'jal', 'jalr', 'auipc', 'c.j', 'c.jal', 'c.beqz', 'c.bnez'}

TRUST_BOUNDED = 'the text front end (lex_tokens / parse_item: regular expressions and string methods) is reached only by the bounded stand-in'
