"""C11 - constants evaluate as integer arithmetic and substitute transparently."""
import z3

from props import common
from pyvc.vc import Obligation

LEVEL = 'other'


def build(ctx):
    common.pass_tasks(ctx, ['resolve_constants', 'resolve_labels', 'resolve_register_aliases', 'transform_compressible', 'transform_pseudo_instructions',
                            'resolve_aligns', 'resolve_immediates'])
    ctx.task('contracts.exprs:task_exprs')
    ctx.task('contracts.pipeline:task_pipeline')      # assemble() establishes what each pass contract assumes
    ctx.task('contracts.encoders:task_lookup_register')
    # register-alias lemma: exhaustive over the real REGISTERS table, on the real code
    from pyvc.real import real
    r = real().req({'op': 'alias_lemma'})
    res = r.get('ok', {'checked': 0, 'bad': [['-', str(r)]]})
    ctx.add(Obligation('lemma/register-alias: constant = register name evaluates to that register (%d spellings, exhaustive)' % res['checked'], [],
                       z3.BoolVal(res['checked'] >= 97 and not res['bad']), 'finite', func='asm.resolve_constants', kind='lemma', cover=False,
                       meta={'what': 'register alias lemma fails: %r' % res['bad'][:3], 'key': 'alias-lemma',
                             'replay': (lambda model, res=res: {'confirmed': bool(res['bad']), 'key': 'alias-lemma', 'what': str(res['bad'][:3]), 'input': res['bad'][:3]})}))
    ctx.assume('A-EVAL: the arithmetic meaning of an expression text is Python eval (integer operators); only name lookup and integer literals are axiomatised, the rest is bounded')
    ctx.trust(common.TRUST_BOUNDED)


def bounded(ctx):
    from bounded import exprs
    exprs.run_all(ctx, ctx.tier)


def explanation(ctx):
    return ('PROVED: resolve_constants defines constants sequentially - the value stored is the item own expression evaluated with no position in '
            'ChainMap(constants, REGISTERS) (earlier constants over register names, no labels), names that shadow a register or are numbers are refused '
            'with the item line; resolve_register_aliases replaces exactly the register fields that name a constant by its value and keeps class and '
            'other fields; a constant defined as any of the 97 register spellings is that register for lookup_register (exhaustive on the real table); '
            'every expression the compressor constructs from a register field evaluates to the register number (shift amounts from constants / '
            'register spellings); resolve_immediates bakes the evaluated value. NOT DECIDABLE here: the arithmetic meaning of an expression TEXT is '
            'Python eval - BOUNDED: expression trees against integer arithmetic, every printable ASCII character literal, constants substituted in '
            'every operand position in both modes.')
