"""C18 - a completed DFU run leaves the device flash equal to the firmware image."""
LEVEL = 'other'


def build(ctx):
    ctx.task('contracts.dfu:task_dfu')


def bounded(ctx):
    from bounded import dfu_runs
    dfu_runs.run_all(ctx, ctx.tier, {'C18'})


def explanation(ctx):
    return ('PROVED relative to the ASSUMED DfuSe device contract (DESIGN 3.7): request builders send DNLOAD of 0x41/0x21 + little-endian address '
            'and the code block with wValue 2; dfu_get_status sleeps exactly bwPollTimeout ms on every call; for symbolic firmware length and all four '
            'variants, an ARBITRARY iteration of the erase and write loops (loop rule, no unrolling) targets address 0x08000000 + 1024*page inside the '
            'flash, writes chunk [1024*page, 1024*page+1024) of the zero-padded image whose length is the least multiple of 1024 >= n, issues every '
            'request with the last reported state != dfuDNBUSY and ends not busy. NOT PROVED: that the device applies requests as specified (hardware), '
            'termination of the polling loops (fairness), flash == image as a whole-run fact - covered by the BOUNDED simulated-device runs '
            '(lengths around every page/size boundary, busy schedules, error-state start).')
