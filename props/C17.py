"""C17 - the command line writes exactly the assembled program, or nothing on failure."""
LEVEL = 'other'


def build(ctx):
    ctx.task('contracts.cli:task_cli')
    # 'the assembled program' of a run with -i / --include-definitions is what the reader splices and the pipeline assembles
    ctx.task('contracts.reader:task_reader')
    ctx.task('contracts.pipeline:task_pipeline')
    ctx.trust('intelhex.bin2hex is a dependency: assumed to write the Intel HEX image of the file at the offset (read back by an independent reader in the bounded tier)')
    ctx.trust('argparse yields the option values; modelled as arbitrary values')


def bounded(ctx):
    from bounded import cli_runs
    cli_runs.run_all(ctx, ctx.tier)
    from bounded import includes
    includes.run_all(ctx, ctx.tier, props=('C14',))      # include trees through the CLI with -i from foreign working directories


def explanation(ctx):
    return ('PROVED (effect-ordering obligations on every path of the real cli_main with arbitrary option values and assemble under contract): '
            'every write is dominated by a normal return of assemble; no failure exit is reachable after the first write; the -o bytes are '
            'assemble return value, the -l lines are name/0xADDRESS of the dict assemble filled, bin2hex gets the -o file and int(offset, 0). '
            'BOUNDED: subprocess runs of the entry point over the option lattice with a fault planted in each pass and pre-existing files; '
            'Intel HEX decoded by an independent reader (bin2hex itself is an assumed dependency).')
