"""C20 - with -c every eligible instruction is compressed and nothing grows."""
from props import common

LEVEL = 'proof'


def build(ctx):
    ctx.task('contracts.pipeline:task_pipeline')      # assemble() establishes what each pass contract assumes
    common.pass_tasks(ctx, ['transform_compressible', 'transform_pseudo_instructions', 'resolve_aligns'])
    common.encoder_tasks(ctx, lambda m: m.startswith('c.'), parts=('legal',))
    ctx.assume('cross-mode clause: proved per step (no step grows an item, labels only move down within a run); the relational '
               'statement across the two modes is bounded')


def bounded(ctx):
    common.suites(ctx, ['cedge', 'mix', 'pseudo', 'li', 'dist', 'rand'], {'eligible', 'modes'})
    ctx.task('bounded.tasks:split_task', 'cedge')
    ctx.task('bounded.tasks:split_task', 'rand')


def explanation(ctx):
    return ('PROVED: for every 32-bit instruction class and mnemonic, a path of the real criteria table that keeps the item implies that no '
            'legal non-hint c.X expands to it (literal operands, all register spellings); every compressed replacement has size() 2; every '
            'step of every layout pass has new size <= old size and moves labels down by exactly the difference. BOUNDED: literal operands on '
            'both sides of every RVC bound through assemble -c; lengths and labels compared across modes.')
