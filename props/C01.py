"""C01 - 32-bit instructions encode exactly as the RISC-V specification defines."""
from contracts import encoders as E
from props import common

LEVEL = 'proof'


def build(ctx):
    E.obligations_table_distinct(ctx, 'C01')
    common.encoder_tasks(ctx, lambda m: not m.startswith('c.'))
    ctx.task('contracts.emit:task_emit_pass', 'resolve_instructions')
    ctx.task('contracts.parse:task_parse')        # the text front end hands the encoder the operands the line names
    # the operands the source named reach the encoder: immediates are their expression's value, register aliases their constant's
    common.pass_tasks(ctx, ['resolve_immediates', 'resolve_register_aliases'])
    ctx.trust(common.TRUST_BOUNDED)


def bounded(ctx):
    ctx.task('bounded.tasks:encoder_text_task', 'base', ['accept', 'decode', 'size'], ['x', 'abi', 'num', 'const'])


def explanation(ctx):
    return ('PROVED for all operand tuples (no enumeration): per mnemonic, the real encoder bound by the real partial line returns '
            'exactly on the legal operand set (unbounded integers, INT back end) and its result decodes under the manual to the same '
            'mnemonic, registers, immediate, fence sets, aq/rl, CSR field (BV back end); injectivity per mnemonic; manual rows pairwise '
            'distinguishable; lookup_register body against its contract (symbolic ints + exhaustive over the REGISTERS literal); '
            'resolve_instructions passes the fields in order to the encoder and packs <I. BOUNDED: text front end (945 one-line '
            'programs per spelling) through lex/parse.')
