"""C01 - 32-bit instructions encode exactly as the RISC-V specification defines."""
from contracts import encoders as E

LEVEL = 'proof'


def build(ctx):
    E.obligations_table_distinct(ctx, 'C01')
    ctx.task('contracts.encoders:task_lookup_register')
    for m in E.mnemonics_from_source(ctx):
        if m.startswith('c.'):
            continue
        ctx.task('contracts.encoders:task_encoder', m)


def explanation(ctx):
    return 'wip'
