"""C10 - data directives emit exactly the documented bytes; misfitting values are refused."""
from props import common

LEVEL = 'other'


def build(ctx):
    for p in ('resolve_sequences', 'transform_shorthand_packs', 'resolve_packs', 'resolve_strings', 'resolve_include_bytes'):
        ctx.task('contracts.emit:task_emit_pass', p)
    ctx.task('contracts.reader:task_reader')
    ctx.trust('A-STRUCT: struct.pack(<code, v) is the little-endian two\'s-complement image of v in the code\'s width, raising struct.error outside its range')
    ctx.trust('codecs (unicode_escape, utf-8) and the file system are external')


def bounded(ctx):
    from bounded import includes, strings
    common.suites(ctx, ['data'], {'data', 'size'})
    strings.run_all(ctx, ctx.tier)
    includes.run_all(ctx, ctx.tier, props=('C10',))


def explanation(ctx):
    return ('PROVED relative to A-STRUCT, for UNBOUNDED integer values: for db/dh/dw/dd the struct code chosen by the real transform_shorthand_packs '
            '(lower-case iff the value is negative, tables read from the AST) is little-endian, of the documented width, and accepts v iff '
            '-2**(8w-1) <= v < 2**(8w); for bytes/shorts/ints/longs/longlongs each value is packed little-endian with the documented width and only '
            'values in that range are accepted (list lengths 0..3 unrolled, per-value body symbolic); a refusal is an AssemblerError; every directive '
            'emits exactly size() bytes; String.size() and resolve_strings use the same UTF-8 encoding; read_lines rewrites an include_bytes line to the '
            'path the include search found and its size. BOUNDED: values at the ends of every width through assemble(); strings over code points and '
            'escapes; include_bytes trees with same-named decoys in the working directory.')
