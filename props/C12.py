"""C12 - a program that assembles without compression also assembles with it."""
from props import common

LEVEL = 'other'


def build(ctx):
    ctx.task('contracts.pipeline:task_pipeline')      # assemble() establishes what each pass contract assumes
    common.pass_tasks(ctx, ['transform_compressible'])
    common.encoder_tasks(ctx, lambda m: m.startswith('c.'), parts=('legal',))


def bounded(ctx):
    common.suites(ctx, ['cedge', 'mix', 'dist', 'far', 'val', 'li', 'pseudo', 'align', 'data', 'rand'], {'accept'})
    ctx.task('bounded.tasks:stale_task', ['accept'])
    ctx.task('bounded.exprs:alias_accept_task')


def explanation(ctx):
    return ('PROVED (literal operands): every predicate evaluation of the real criteria table raises nothing for an item the uncompressed '
            'pipeline accepts; every constructed operand expression evaluates (shift amounts from constants / register spellings); the operands '
            'of each chosen c.* form are legal for its encoder. NOT PROVABLE: for label-dependent immediates the compressed form is chosen on a '
            'stale value - genuinely violated on this tree (KNOWN-FINDING). BOUNDED: every generated program accepted without -c is '
            're-assembled with -c.')
