"""C08 - label arithmetic (%offset, %position, bare labels) uses final addresses."""
from props import common

LEVEL = 'proof'


def build(ctx):
    import contracts.relocate  # noqa
    common.pass_tasks(ctx)
    ctx.task('contracts.exprs:task_exprs')
    ctx.task('contracts.pipeline:task_pipeline')      # assemble() establishes what each pass contract assumes
    ctx.task('contracts.relocate:task_relocate')
    for p in ('resolve_instructions', 'resolve_strings', 'resolve_sequences', 'transform_shorthand_packs', 'resolve_packs', 'resolve_include_bytes'):
        ctx.task('contracts.emit:task_emit_pass', p)
    ctx.assume('A-EVAL: eval(name, env) == env[name] for a bare label name (Arithmetic.eval is Python eval)')
    ctx.trust(common.TRUST_BOUNDED)


def bounded(ctx):
    common.suites(ctx, ['val', 'li', 'mix', 'align', 'rand', 'data'], {'value', 'label'})


def explanation(ctx):
    return ('PROVED: Offset.eval = env[L] - position, Position.eval = base + env[L], Hi/Lo = relocate of the inner value; resolve_immediates '
            'evaluates each item expression exactly once at the item own output offset in ChainMap(constants, labels) and bakes that value '
            '(instructions, ShorthandPack, Pack alike); the label table is exact for the final layout at that point (LabelsExact step VCs of '
            'every layout pass) and no later pass stores into it. BOUNDED: dw/dd/dh/pack/instruction immediates recomputed from chunk offsets; '
            'bare-label Arithmetic goes through Python eval (assumed).')
