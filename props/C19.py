"""C19 - DFU refuses oversize firmware untouched and never reports a failed flash as done."""
LEVEL = 'other'


def build(ctx):
    ctx.task('contracts.dfu:task_dfu')


def bounded(ctx):
    from bounded import dfu_runs
    dfu_runs.run_all(ctx, ctx.tier, {'C19'})


def explanation(ctx):
    return ('PROVED on every path of the real dfu.cli_main (loops by the loop rule, GETSTATUS responses arbitrary): the first request is sent only on '
            'paths where len(firmware) <= page_size*page_count, the "too large" exit has an empty request trace; an erase or write iteration that '
            'completes normally has STATUS_OK as the last reported status (any other status leaves by SystemExit), so the final "done!" is reached '
            'only with every reported status OK. BOUNDED: single (thorough: double) error-status injections at every operation, oversize lengths, '
            'against the simulated device. Assumed: the device contract; a raw USB error (stall in dfuERROR) also ends the run non-zero.')
