"""C13 - documented spelling variants of the same program assemble to identical bytes."""
from props import common

LEVEL = 'other'


def build(ctx):
    ctx.task('contracts.encoders:task_lookup_register')
    ctx.task('contracts.parse:task_parse')
    ctx.task('contracts.emit:task_emit_pass', 'resolve_instructions')
    ctx.trust('lexing (lex_tokens: re.sub / re.split / str.replace / strip) and read_lines (splitlines, blank-line skipping) are string code: bounded only')


def bounded(ctx):
    from bounded import spelling
    spelling.run_all(ctx, ctx.tier)


def explanation(ctx):
    return ('PROVED: a register written as number, xN or ABI alias reaches the same register number (lookup_register body: symbolic integers + exhaustive '
            'over the REGISTERS literal against the ABI table); for every base+offset mnemonic the token shapes `m a off ( b )` and `m a b off` build '
            'field-for-field equal items; for all 93 mnemonics parse_item hands the operand tokens to the encoder in the documented order and integer '
            'spellings reach the encoders only as values (C01 makes the bytes a function of the values). NOT DECIDABLE by this technique: commas vs '
            'whitespace, comments, indentation, blank lines are the behaviour of re.sub/re.split/str methods on arbitrary text - BOUNDED: every generated '
            'program re-rendered with the documented freedoms chosen independently per line and operand, both modes, bytes and labels compared.')
