"""C16 - assembly is a pure, deterministic function of its inputs."""
from props import common

LEVEL = 'other'


def build(ctx):
    from contracts import frames
    frames.obligations_frames(ctx, 'asm')
    ctx.task('contracts.reader:task_reader')
    # dynamic frames: every mutation observed while the real pass bodies run symbolically
    common.pass_tasks(ctx, ['resolve_constants', 'resolve_labels', 'resolve_register_aliases', 'transform_compressible',
                            'transform_pseudo_instructions', 'resolve_aligns', 'resolve_immediates'])
    ctx.assume('A-CPY: dict iteration is insertion ordered')
    ctx.assume('Python eval inside Arithmetic.eval can execute an assignment expression that writes a constant into the per-call dict (observation)')


def bounded(ctx):
    from bounded import purity
    purity.run_all(ctx, ctx.tier)
    ctx.task('bounded.tasks:split_task', 'rand')


def explanation(ctx):
    return ('PROVED (frame obligations over the AST of every function of asm.py, flow-insensitive alias analysis): no function stores into, '
            'augments, deletes from or calls a mutating method on a module-level object or an alias of one; module-level mutables escape only into '
            'read-only ChainMap positions; no global/nonlocal, no mutable default; no call to a nondeterministic primitive and no iteration over a set; '
            'the only import-time mutation builds INSTRUCTIONS/KEYWORDS; the step VCs of the passes show the only stores into labels/constants are the '
            'accounted ones. Hence the result is a function of the arguments and the file system. BOUNDED: call histories in one process against fresh '
            'processes, hash seeds, digests of all module tables before/after.')
