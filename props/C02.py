"""C02 - compressed (RV32C) instructions encode exactly as specified, one-to-one."""
from contracts import encoders as E

LEVEL = 'proof'


def build(ctx):
    ctx.task('contracts.encoders:task_lookup_register')
    for m in E.mnemonics_from_source(ctx):
        if m.startswith('c.'):
            ctx.task('contracts.encoders:task_encoder', m)
            ctx.task('contracts.encoders:task_reverse', m)


def explanation(ctx):
    return 'wip'
