"""C02 - compressed (RV32C) instructions encode exactly as specified, one-to-one."""
from props import common

LEVEL = 'proof'


def build(ctx):
    common.encoder_tasks(ctx, lambda m: m.startswith('c.'), reverse=True)
    ctx.task('contracts.emit:task_emit_pass', 'resolve_instructions')
    ctx.task('contracts.parse:task_parse')        # the text front end hands the encoder the operands the line names
    # the operands the source named reach the encoder: immediates are their expression's value, register aliases their constant's
    common.pass_tasks(ctx, ['resolve_immediates', 'resolve_register_aliases'])
    ctx.trust(common.TRUST_BOUNDED)


def bounded(ctx):
    ctx.task('bounded.tasks:encoder_text_task', 'c', ['accept', 'decode', 'size'], ['x', 'abi', 'const'])
    ctx.task('bounded.tasks:halfword_task')


def explanation(ctx):
    return ('PROVED: forward - every tuple a c.* encoder accepts yields a halfword that the RVC tables classify as that mnemonic with '
            'those operands and that is neither a hint nor reserved; the encoder accepts exactly the legal set; reverse - for every '
            '16-bit h that is a legal encoding of form m, the real encoder returns h on the operands read back from h (27 VCs over a '
            'bit-vector h); injectivity. BOUNDED/EXHAUSTIVE (concrete): all 65,536 halfwords classified by the spec and re-encoded by '
            'the real functions; text front end for corner tuples.')
