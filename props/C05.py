"""C05 - pseudo-instructions have exactly the effect the instruction reference documents."""
from props import common

LEVEL = 'proof'


def build(ctx):
    import contracts.relocate  # noqa
    common.pass_tasks(ctx)      # all five layout passes: the documented target is reached only if every label stays exact
    ctx.task('contracts.relocate:task_relocate')
    ctx.task('contracts.pipeline:task_pipeline')      # assemble() establishes what each pass contract assumes
    ctx.task('contracts.exprs:task_exprs')
    common.encoder_tasks(ctx, lambda m: m in ('addi', 'xori', 'sltiu', 'sub', 'sltu', 'slt', 'lui', 'auipc', 'jal', 'jalr', 'beq', 'bne',
                                               'blt', 'bge', 'bltu', 'bgeu', 'fence'), parts=('legal', 'decode'))
    ctx.assume('li: the operand expression has the same value at the lui and at the addi (label-free or position-independent)')
    ctx.trust(common.TRUST_BOUNDED)


def bounded(ctx):
    common.suites(ctx, ['li', 'pseudo', 'dist', 'far', 'mix', 'rand'], {'li', 'decode', 'target'})


def explanation(ctx):
    return ('PROVED for every pseudo-instruction and every path of its real expansion branch: the constructed instructions, run through the '
            'reference RV32 step semantics on an ARBITRARY register file and pc, have the documented effect and touch no other register '
            '(x6 only in the far tail); li leaves value mod 2**32 for EVERY integer value (both size classes, threshold as coded); branch '
            'conditions, link registers, targets via Offset/%hi/%lo contracts and the immediate-resolution contract. BOUNDED: emitted bytes '
            'executed/decoded for li at every carry class, all pseudo-instructions over register choices, transfers at distance classes.')
