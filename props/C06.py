"""C06 - unrepresentable operands are rejected, never truncated; legal ones accepted."""
from props import common

LEVEL = 'proof'


def build(ctx):
    common.encoder_tasks(ctx, lambda m: True, parts=('legal',))
    common.pass_tasks(ctx, ['transform_compressible', 'resolve_immediates'])
    ctx.task('contracts.emit:task_emit_pass', 'resolve_instructions')
    ctx.task('contracts.parse:task_parse')        # the text front end hands the encoder the operands the line names
    ctx.trust(common.TRUST_BOUNDED)


def bounded(ctx):
    ctx.task('bounded.tasks:encoder_text_task', 'all', ['accept', 'reject', 'own-error'], ['x'])
    common.suites(ctx, ['cedge', 'dist'], {'accept'})


def explanation(ctx):
    return ('PROVED for all 93 mnemonics over UNBOUNDED integer operands: every path of the real encoder that returns implies the operand '
            'tuple is legal (immediate in range, multiple of the scale, register in the allowed set, non-zero where the ISA reserves zero, '
            'shamt < 32) and every path that raises raises ValueError and implies it is illegal; resolve_instructions turns that ValueError '
            'into AssemblerError with the item line and appends nothing. BOUNDED: one-line programs around every bound through assemble().')
