"""C14 - include is textual splicing, resolved independently of the working directory."""
from props import common

LEVEL = 'other'


def build(ctx):
    ctx.task('contracts.pipeline:task_pipeline')      # assemble() establishes what each pass contract assumes
    ctx.task('contracts.reader:task_reader')
    ctx.task('contracts.cli:task_cli')
    # line-independence frame: every pass runs with opaque Line fields (file / number / contents); a pass that branched on
    # them or copied them into data would be an unmodelled construct
    common.pass_tasks(ctx, ['resolve_constants', 'resolve_labels', 'transform_pseudo_instructions', 'resolve_aligns', 'resolve_immediates'])
    ctx.assume('file contents and existence are external (uninterpreted); include cycles diverge (partial correctness)')
    ctx.trust('string predicates on a raw line (.lower().startswith, split, strip of quotes, comment stripping) are uninterpreted in the proof and exercised by the bounded tier')


def bounded(ctx):
    from bounded import includes
    includes.run_all(ctx, ctx.tier, props=('C14',))
    ctx.task('bounded.tasks:split_task', 'mix')
    ctx.task('bounded.tasks:split_task', 'rand')
    ctx.task('bounded.tasks:split_task', 'pseudo')


def explanation(ctx):
    return ('PROVED (Hoare step on an arbitrary line of read_lines, file system primitives as uninterpreted path constructors, recursive call by '
            'contract): an ordinary line is carried as Line(path, i, text) with 1-based i, a blank line contributes nothing, an include line is replaced '
            'by read_lines(F\', include=True, same include_dirs) where F\' = join(d, F) for the first d in include_dirs + [dirname(abspath(path))] that has '
            'the file, else AssemblerError for that line; every path handed to open/exists/getsize derives from the including file or the include dirs - '
            'the working directory is consulted only for sources given as strings; cli_main makes the top-level path and -i dirs absolute; the passes never '
            'inspect Line fields. BOUNDED: include trees x working directories through API and CLI against the hand-spliced single file.')
