"""C07 - %hi / %lo always split a value so that the consuming pair rebuilds it."""
LEVEL = 'proof'


def build(ctx):
    import contracts.relocate  # registers replays
    ctx.task('contracts.relocate:task_relocate')


def explanation(ctx):
    return 'wip'
