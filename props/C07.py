"""C07 - %hi / %lo always split a value so that the consuming pair rebuilds it."""
LEVEL = 'proof'


def build(ctx):
    import contracts.relocate  # registers replays
    ctx.task('contracts.relocate:task_relocate')
    from props import common
    # the consuming pairs are built by the passes: no pass may bake a %hi / %lo computed before the layout is final
    common.pass_tasks(ctx, ['transform_compressible', 'transform_pseudo_instructions', 'resolve_immediates'])
    # the pair rebuilds v only if the consuming instructions - also in the 16-bit form -c turns them into - carry the split unchanged
    common.encoder_tasks(ctx, lambda m: m in ('lui', 'auipc', 'addi', 'lw', 'sw', 'lb', 'lbu', 'lh', 'lhu', 'sb', 'sh', 'jalr',
                                               'c.lui', 'c.addi', 'c.li', 'c.lw', 'c.sw', 'c.lwsp', 'c.swsp', 'c.addi16sp', 'c.addi4spn',
                                               'c.jr', 'c.jalr', 'c.mv'), parts=('legal', 'decode'))


def bounded(ctx):
    from props import common
    common.suites(ctx, ['val', 'li', 'rand'], {'value', 'li'})
    common.suites(ctx, ['hilo'], {'value', 'li', 'must-assemble'})


def explanation(ctx):
    return ('PROVED over UNBOUNDED integers (no 2**32 enumeration): sign_extend for widths 1..32 equals two\'s-complement sign extension; '
            '-2**19 <= %hi(v) < 2**19, -2**11 <= %lo(v) < 2**11, ((%hi(v) << 12) + %lo(v) - v) mod 2**32 == 0 on every path of the real '
            'relocate_hi / relocate_lo; Hi.eval / Lo.eval return that split of the inner expression CURRENT value (evaluated twice with a changed '
            'inner value: no stale result); u_type accepts every %hi result, i/s/ij_type every %lo result; pair lemma for lui/auipc + '
            'addi/load/store/jalr. BOUNDED (labels and %position expressions through assemble): val and li suites in both modes.')
