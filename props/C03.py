"""C03 - branches, jumps, call and tail land on their label; label table is exact."""
from props import common

LEVEL = 'proof'


def build(ctx):
    import contracts.relocate  # noqa
    common.pass_tasks(ctx)
    # the label table is exact only if every item emits exactly size() bytes (labels are counted in size() units)
    for p in ('resolve_instructions', 'resolve_strings', 'resolve_sequences', 'transform_shorthand_packs', 'resolve_packs', 'resolve_include_bytes'):
        ctx.task('contracts.emit:task_emit_pass', p)
    common.encoder_tasks(ctx, lambda m: m in common.TRANSFER_MNEMONICS, parts=('legal', 'decode'))
    ctx.task('contracts.relocate:task_relocate')
    ctx.task('contracts.pipeline:task_pipeline')      # assemble() establishes what each pass contract assumes
    ctx.task('contracts.parse:task_parse')        # a name as jump / branch operand is a location (%offset), a number an offset
    ctx.task('contracts.exprs:task_exprs')
    ctx.assume('label names are pairwise distinct and distinct from constant names (otherwise "its target label" is undefined)')
    ctx.assume('align N has N >= 1')
    ctx.assume('entries pre-seeded by the caller in `labels` are not program labels (they are shifted like any value)')
    ctx.trust(common.TRUST_BOUNDED)


def bounded(ctx):
    common.suites(ctx, ['dist', 'far', 'mix', 'pseudo', 'align', 'rand', 'data'], {'label', 'target'})
    ctx.task('bounded.tasks:split_task', 'mix')
    ctx.task('bounded.tasks:split_task', 'rand')


def explanation(ctx):
    return ('PROVED (solver-discharged, all programs): loop-body step VCs of resolve_labels, transform_compressible, '
            'transform_pseudo_instructions, resolve_aligns, resolve_immediates under the LabelsExact invariant (position tracks '
            'emitted sizes; every label value is exact for the current sizes; labels are defined at the current position), '
            'the immediate baked at an item is its expression evaluated at the item own offset (auipc offset for the jalr half), '
            'Offset/Position.eval contracts, %hi/%lo pair lemma, encode/decode contracts of every control-transfer mnemonic, '
            'and the expansion effect lemmas of j/jal/call/tail/pseudo-branches. BOUNDED (never counted as proved): whole '
            'assemble() on generated programs with labels and targets recomputed from per-item chunks; this is what reaches the '
            'lexer/parser and the composition of the passes in assemble().')
