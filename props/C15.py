"""C15 - a faulty source line is reported as an assembler error naming that file and line."""
from props import common

LEVEL = 'other'

ALL_PASSES = ['resolve_constants', 'resolve_labels', 'resolve_register_aliases', 'transform_compressible', 'transform_pseudo_instructions',
              'resolve_aligns', 'resolve_immediates']
EMIT = ['resolve_instructions', 'resolve_strings', 'resolve_sequences', 'transform_shorthand_packs', 'resolve_packs', 'resolve_include_bytes']


def build(ctx):
    common.pass_tasks(ctx, ALL_PASSES)
    for p in EMIT:
        ctx.task('contracts.emit:task_emit_pass', p)
    ctx.task('contracts.exprs:task_exprs')
    ctx.task('contracts.reader:task_reader')
    ctx.assume('fault classes are the property own list; wrong operand count, invalid pack format, align 0 and unreadable files are outside it and only recorded')
    ctx.trust(common.TRUST_BOUNDED)


def bounded(ctx):
    from bounded import faults
    faults.run_all(ctx, ctx.tier)


def explanation(ctx):
    return ('PROVED (exceptional frames, loop-body VCs of all 13 passes on an arbitrary item of every class, register fields arbitrary spellings, '
            'immediates arbitrary expressions that may fail to evaluate, data values arbitrary tokens, struct/int() partial): every path that leaves '
            'a pass by an exception raises AssemblerError whose line is the current item line (deep copies included); expansions and compressed items '
            'inherit item.line; Offset/Position.eval raise AssemblerError with the line they were given. Escapes outside the property list are '
            'recorded as observations. NOT REACHED by the proof: lex_tokens / parse_item / read_lines (string code) - BOUNDED: every fault class planted '
            'at positions of valid programs, in included files of depth <= 3, both modes, file and 1-based line compared.')
