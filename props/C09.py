"""C09 - output is the in-order concatenation of items; align pads minimally with zeros."""
from props import common

LEVEL = 'proof'


def build(ctx):
    ctx.task('contracts.emit:task_resolution_size')
    ctx.task('contracts.emit:task_resolve_blobs')
    ctx.task('contracts.pipeline:task_pipeline')      # assemble() establishes what each pass contract assumes
    common.pass_tasks(ctx, ['resolve_labels', 'resolve_aligns', 'transform_compressible', 'transform_pseudo_instructions', 'resolve_immediates',
                            'resolve_constants', 'resolve_register_aliases'])
    for p in ('resolve_instructions', 'resolve_strings', 'resolve_sequences', 'transform_shorthand_packs', 'resolve_packs', 'resolve_include_bytes'):
        ctx.task('contracts.emit:task_emit_pass', p)
    ctx.assume('align N has N >= 1')
    ctx.trust(common.TRUST_BOUNDED)


def bounded(ctx):
    common.suites(ctx, ['align', 'mix', 'data', 'cedge', 'rand'], {'concat', 'size'})


def explanation(ctx):
    return ('PROVED: Align.resolution_size for SYMBOLIC N >= 1 and position >= 0 returns the unique 0 <= r < N with N | position + r; '
            'resolve_aligns emits r zero bytes; every pass appends to its output list only, in iteration order, items derived from the current '
            'item; each emission pass turns an item into a Blob of exactly size() bytes (instructions 2/4, data its documented size, strings '
            'their UTF-8 length); labels and constants are dropped; resolve_blobs extends the output by exactly item.data. BOUNDED: independent '
            'walk of generated programs for N in 1..17, 32, 100, 4096 at every residue.')
