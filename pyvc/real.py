"""Client for bounded/realcode.py: the real code, executed by /venv/bin/python."""
import json
import os
import subprocess

from . import REPO, REPO_PY, VERIF


class RealCode:
    def __init__(self):
        env = dict(os.environ)
        env['BRONZEBEARD_REPO'] = REPO
        env['PYTHONDONTWRITEBYTECODE'] = '1'
        env.pop('PYTHONPATH', None)
        self.p = subprocess.Popen([REPO_PY, os.path.join(VERIF, 'bounded', 'realcode.py')], stdin=subprocess.PIPE,
                                  stdout=subprocess.PIPE, text=True, env=env, cwd=VERIF)
        self.calls = 0
        info = self.req({'op': 'ping'})
        self.info = info

    def req(self, d):
        self.calls += 1
        self.p.stdin.write(json.dumps(d) + '\n')
        self.p.stdin.flush()
        line = self.p.stdout.readline()
        if not line:
            raise RuntimeError('real-code server died')
        r = json.loads(line)
        if 'server_error' in r:
            raise RuntimeError('real-code server: %s' % r['server_error'])
        return r

    def encode(self, m, args, kwargs=None):
        return self.req({'op': 'encode', 'm': m, 'args': list(args), 'kwargs': kwargs or {}})

    def call(self, f, args, kwargs=None):
        return self.req({'op': 'call', 'f': f, 'args': list(args), 'kwargs': kwargs or {}})

    def assemble(self, src, compress=False, **kw):
        d = {'op': 'assemble', 'src': src, 'compress': compress}
        d.update(kw)
        return self.req(d)

    def chunks(self, src, compress=False, **kw):
        d = {'op': 'chunks', 'src': src, 'compress': compress}
        d.update(kw)
        return self.req(d)

    def close(self):
        try:
            self.p.stdin.close()
            self.p.wait(timeout=5)
        except Exception:
            self.p.kill()


_REAL = None


def real():
    global _REAL
    if _REAL is None:
        _REAL = RealCode()
    return _REAL


def b(hexstr):
    return bytes.fromhex(hexstr)
