"""Check driver: builds the obligations of one property from /repo's current
source, discharges them, replays counter-models on the real code, runs the
bounded stand-ins, writes evidence, prints verdict lines (DESIGN 2.5-2.7, 7)."""
import argparse
import importlib
import json
import os
import re
import sys
import time
import traceback

from . import REPO, VERIF
from . import interp as I
from . import vc as V
from .real import real


class Violation:
    def __init__(self, prop, obligation, key, what, replay, confirmed, source):
        self.prop = prop
        self.obligation = obligation
        self.key = key
        self.what = what
        self.replay = replay          # dict written to the replay file
        self.confirmed = confirmed    # True: failing input reproduced on the real code; None: no input
        self.source = source          # 'proof' | 'bounded'
        self.path = None


class Ctx:
    def __init__(self, prop, tier, seed):
        self.prop = prop
        self.tier = tier
        self.seed = seed
        self.t0 = time.time()
        self.obligations = []
        self.funcs = {}               # qualname -> {'file':..., 'line':...}
        self.inlined = set()
        self.assumptions = []
        self.trusted = []
        self.violations = []
        self.undecided = []           # (where, reason)
        self.errors = []
        self.bounded = {'evaluations': 0, 'distinct': set(), 'rules': [], 'samples': [], 'parts': {}}
        self.notes = []
        self.crosscheck = {'inputs': 0, 'disagreements': 0}
        self.explanation = []
        self.dropped = set()
        self._mods = {}
        self.known = load_known()
        self.samples = []
        self.selftest = None
        self.tasks = []

    def task(self, target, *args):
        """schedule `module:function(ctx, *args)` to run in a worker process (builds and discharges its own
        obligations from /repo's source); results are merged by run_tasks"""
        self.tasks.append((target, args))

    # ---- source access -------------------------------------------------
    def module(self, name):
        if name not in self._mods:
            path = os.path.join(REPO, 'bronzebeard', name + '.py')
            self._mods[name] = I.load_module(path, name)
        return self._mods[name]

    def under_contract(self, qualname, mod='asm'):
        m = self.module(mod)
        try:
            node = m.func_node(qualname)
            self.funcs['%s.%s' % (mod, qualname)] = {'file': 'bronzebeard/%s.py' % mod, 'line': node.lineno,
                                                     'end': node.end_lineno}
        except KeyError:
            self.funcs['%s.%s' % (mod, qualname)] = {'file': 'bronzebeard/%s.py' % mod, 'line': None}

    def add(self, o):
        # obligations tagged with the properties they decide are kept only by those properties' checks;
        # untagged ones (callee contracts in the dependency cone) are kept by every check that builds them
        props = o.meta.get('props')
        if props and self.prop not in props:
            return o
        self.obligations.append(o)
        return o

    def assume(self, text):
        if text not in self.assumptions:
            self.assumptions.append(text)

    def trust(self, text):
        if text not in self.trusted:
            self.trusted.append(text)

    def undecide(self, where, reason):
        self.undecided.append((where, str(reason)))

    # ---- bounded tier --------------------------------------------------
    def b_eval(self, part, case_key, nontrivial=True, sample=None):
        self.bounded['evaluations'] += 1
        p = self.bounded['parts'].setdefault(part, {'evaluations': 0, 'distinct': set()})
        p['evaluations'] += 1
        if nontrivial:
            self.bounded['distinct'].add((part, case_key))
            p['distinct'].add(case_key)
        if sample is not None and len(self.bounded['samples']) < 12 and len([s for s in self.bounded['samples'] if s.get('part') == part]) < 2:
            self.bounded['samples'].append({'part': part, 'case': sample})

    def b_rule(self, text):
        if text not in self.bounded['rules']:
            self.bounded['rules'].append(text)

    def violation(self, obligation, key, what, replay, confirmed=True, source='bounded'):
        for v in self.violations:
            if v.obligation == obligation and v.key == key:
                return v
        v = Violation(self.prop, obligation, key, what, replay, confirmed, source)
        self.violations.append(v)
        return v


def load_known():
    path = os.path.join(VERIF, 'KNOWN_FINDINGS.txt')
    known = []
    if os.path.exists(path):
        for line in open(path):
            line = line.strip()
            if not line.startswith('known:'):
                continue
            m = re.match(r'known:\s+property=(\S+)\s+obligation=(\S+)\s+key=(\S+)\s+::\s+(.*)$', line)
            if m:
                known.append({'prop': m.group(1), 'obligation': m.group(2), 'key': m.group(3), 'what': m.group(4)})
    return known


def is_known(ctx, v):
    import fnmatch
    for k in ctx.known:
        if k['prop'] == ctx.prop and fnmatch.fnmatchcase(v.key, k['key']) and \
                (k['obligation'] == '*' or fnmatch.fnmatchcase(v.obligation, k['obligation'])):
            return k
    return None


def _run_task(job):
    prop, tier, seed, target, args, timeout_ms = job
    sub = Ctx(prop, tier, seed)
    try:
        modname, fn = target.split(':')
        f = getattr(importlib.import_module(modname), fn)
        try:
            f(sub, *args)
        except I.Unsupported as e:
            sub.undecide('%s%r' % (target, args), 'construct not modelled by the executor: %s' % e)
        V.discharge(sub.obligations, timeout_ms=timeout_ms, jobs=1)
        if tier == 'thorough' and os.environ.get('VERIF_NO_SECOND') != '1':
            # every obligation additionally on cvc5 and /usr/bin/z3 (a different build): all must agree
            agree = 0
            for i, o in enumerate(sub.obligations):
                if o.backend == 'finite':
                    continue
                _, answers = V._second((i, o.smt2(True), 10000))
                exp = {'valid': 'unsat', 'invalid': 'sat'}.get(o.result)
                for solver, st in answers.items():
                    if st in ('sat', 'unsat') and exp is not None:
                        if st != exp:
                            sub.errors.append('solver disagreement on %s: %s says %s, z3 said %s' % (o.name, solver, st, o.result))
                        else:
                            agree += 1
            sub.crosscheck['solver_agreements'] = sub.crosscheck.get('solver_agreements', 0) + agree
        first = next((o for o in sub.obligations if o.result == 'valid' and o.backend != 'finite' and o.expect == 'valid'), None)
        if first is not None:
            sub.samples.insert(0, {'obligation': first.name, 'backend': first.backend, 'result': first.result, 'ms': round(first.ms, 1),
                                   'smt2_negated_goal': first.smt2(True)[:1500]})
        for o in sub.obligations:
            o.strip()
    except Exception as e:
        sub.errors.append('task %s%r crashed: %r\n%s' % (target, args, e, traceback.format_exc()[-1200:]))
        sub.obligations = [o for o in sub.obligations if o.hyps is None]
    for part in sub.bounded['parts'].values():
        part['distinct'] = set(part['distinct'])
    return {'violations': sub.violations, 'bounded': sub.bounded, 'raise_paths': [dict(r, pc=None) for r in getattr(sub, 'raise_paths', [])],
            'obligations': sub.obligations, 'errors': sub.errors, 'undecided': sub.undecided, 'funcs': sub.funcs,
            'inlined': sub.inlined, 'assumptions': sub.assumptions, 'trusted': sub.trusted, 'crosscheck': sub.crosscheck,
            'notes': sub.notes, 'samples': sub.samples, 'dropped': sub.dropped}


def run_tasks(ctx, timeout_ms):
    if not ctx.tasks:
        return
    jobs = [(ctx.prop, ctx.tier, ctx.seed, t, a, timeout_ms) for t, a in ctx.tasks]
    if len(jobs) == 1 or os.environ.get('VERIF_SERIAL') == '1':
        results = [_run_task(j) for j in jobs]
    else:
        results = V.pool(min(16, os.cpu_count() or 1)).map(_run_task, jobs, chunksize=1)
    for r in results:
        ctx.obligations.extend(r['obligations'])
        ctx.errors.extend(r['errors'])
        ctx.undecided.extend(r['undecided'])
        ctx.funcs.update(r['funcs'])
        ctx.inlined |= r['inlined']
        ctx.dropped |= r['dropped']
        for a in r['assumptions']:
            ctx.assume(a)
        for a in r['trusted']:
            ctx.trust(a)
        ctx.crosscheck['inputs'] += r['crosscheck']['inputs']
        ctx.crosscheck['disagreements'] += r['crosscheck']['disagreements']
        ctx.crosscheck['solver_agreements'] = ctx.crosscheck.get('solver_agreements', 0) + r['crosscheck'].get('solver_agreements', 0)
        ctx.notes.extend(r['notes'])
        ctx.samples.extend(r['samples'][:2])
        for v in r['violations']:
            if not any(x.obligation == v.obligation and x.key == v.key for x in ctx.violations):
                ctx.violations.append(v)
        b = r['bounded']
        ctx.bounded['evaluations'] += b['evaluations']
        ctx.bounded['distinct'] |= b['distinct']
        for t in b['rules']:
            ctx.b_rule(t)
        ctx.bounded['samples'].extend(b['samples'][:2])
        for k, part in b['parts'].items():
            mine = ctx.bounded['parts'].setdefault(k, {'evaluations': 0, 'distinct': set()})
            mine['evaluations'] += part.get('evaluations', 0)
            mine['distinct'] |= part.get('distinct', set())
            for kk, vv in part.items():
                if kk not in ('evaluations', 'distinct'):
                    mine[kk] = mine.get(kk, 0) + vv
        ctx.raise_paths = getattr(ctx, 'raise_paths', []) + r['raise_paths']
    ctx.tasks = []


def process_obligations(ctx, timeout_ms):
    obls = ctx.obligations
    todo = [o for o in obls if o.result is None]
    V.discharge(todo, timeout_ms=timeout_ms)
    n_disch = 0
    for o in obls:
        if o.expect == 'invalid':
            # canary: a deliberately false obligation on a reachable path must be refuted
            if o.result == 'invalid':
                n_disch += 1
            else:
                ctx.errors.append('canary %s was not refuted (%s): the engine prunes or the hypotheses are contradictory' % (o.name, o.result))
            continue
        if o.result == 'valid':
            if o.cover and o.cover_result != 'sat':
                ctx.errors.append('vacuous obligation %s: hypotheses not satisfiable (%s)' % (o.name, o.cover_result))
            else:
                n_disch += 1
            continue
        if o.result == 'unknown':
            ctx.undecide(o.name, 'solver returned unknown within %d ms' % timeout_ms)
            continue
        # invalid: replay the counter-model on the real code
        imprecise = any(str(k).startswith('havoc!') for k in (o.model or {}))
        rp = o.meta.get('replay')
        info = None
        if rp is not None:
            try:
                if callable(rp):
                    info = rp(o.model or {})
                else:
                    from . import replays
                    info = replays.run(ctx, rp[0], rp[1], o.model or {})
            except Exception as e:
                ctx.errors.append('replay of %s crashed: %r\n%s' % (o.name, e, traceback.format_exc()))
                continue
        if imprecise and not (info and info.get('confirmed')):
            # the counter-model assigns a value to a bit operation the INT back end could not express (over-approximated
            # by an arbitrary integer): the failure may be an artefact of the approximation - undecided, not a violation
            ctx.undecide(o.name, 'obligation fails only through an over-approximated bit operation on two symbolic values (model %s)' % json.dumps(o.model, default=str)[:200])
            continue
        if info is None and o.meta.get('unrecognised'):
            # the goal is false only because the executor did not recognise the shape of what the code built (a tool limit),
            # and the replay found no failing input on the real code: undecided, not a violation
            ctx.undecide(o.name, 'the structure the code builds here is not recognised by the contract harness and the replay found no failing input')
            continue
        if info is None:
            ctx.violation(o.name, o.meta.get('key', 'no-input'), o.meta.get('what', 'obligation failed: ' + o.name),
                          {'obligation': o.name, 'model': o.model, 'smt2': o.smt2()[:20000],
                           'solver': o.solver, 'note': 'no-failing-input-found'}, confirmed=None, source='proof')
        elif info.get('confirmed'):
            ctx.violation(o.name, info.get('key', 'model'), info.get('what', o.name),
                          dict(info, obligation=o.name, model=o.model, solver=o.solver), confirmed=True, source='proof')
        else:
            ctx.undecide(o.name, 'counter-model not reproduced on the real code (contract or engine error): %s' % json.dumps(info, default=str)[:600])
    return n_disch


def finish(ctx, level, n_disch, checker_cmd, explanation):
    known_lines, viol_lines = [], []
    rdir = os.environ.get('VERIF_REPLAY_DIR', 'replays')
    os.makedirs(os.path.join(VERIF, rdir), exist_ok=True)
    new_violations = 0
    known_hit = []
    for v in ctx.violations:
        k = is_known(ctx, v)
        if k is not None:
            known_hit.append(k)
            continue
        new_violations += 1
        import hashlib
        safe = re.sub(r'[^A-Za-z0-9_.-]+', '_', '%s-%s-%s' % (ctx.prop, v.obligation, v.key))[:140] + '-' + \
            hashlib.sha1(('%s|%s' % (v.obligation, v.key)).encode()).hexdigest()[:8]
        path = os.path.join(rdir, safe + '.json')
        v.path = path
        with open(os.path.join(VERIF, path), 'w') as f:
            json.dump({'property': ctx.prop, 'obligation': v.obligation, 'key': v.key, 'what': v.what,
                       'source': v.source, 'confirmed_on_real_code': v.confirmed, 'repo': REPO,
                       'rerun': './check %s --replay %s' % (ctx.prop, path), 'detail': v.replay}, f, indent=1, default=str)
        viol_lines.append('VIOLATION property=%s replay=%s%s' % (ctx.prop, path, '' if v.confirmed else ' no-failing-input-found'))
    seen = set()
    for k in known_hit:
        if (k['obligation'], k['key']) in seen:
            continue
        seen.add((k['obligation'], k['key']))
        known_lines.append('KNOWN-FINDING: property=%s %s [%s]' % (ctx.prop, k['what'], k['key']))
    # a known finding that no longer reproduces is reported (informational), never an error
    for k in ctx.known:
        if k['prop'] == ctx.prop and (k['obligation'], k['key']) not in seen:
            ctx.notes.append('known finding not reproduced in this run/tier: %s %s' % (k['obligation'], k['key']))

    real_obls = [o for o in ctx.obligations]
    for part in ctx.bounded['parts'].values():
        part.setdefault('distinct', set())
    per_func = {}
    for o in real_obls:
        if getattr(o, 'func', None):
            d = per_func.setdefault(o.func, {'obligations': 0, 'valid': 0})
            d['obligations'] += 1
            d['valid'] += 1 if o.result == 'valid' else 0
    cov = {
        'obligations': len(real_obls),
        'discharged': n_disch,
        'checker_cmd': checker_cmd,
        'trusted_base': ctx.trusted,
        'explanation': explanation,
        'functions_under_contract': sorted(ctx.funcs),
        'functions_detail': ctx.funcs,
        # measured per function (annotated is not proved): obligations generated from the function's own body in THIS run
        # and how many of them were discharged; a function listed under contract with no obligation of its own here is
        # used through its contract only (its body is discharged by the check named in DESIGN 4 for it, or it is a
        # frame-only entry of C16)
        'obligations_per_function': per_func,
        'under_contract_without_own_obligation_in_this_run': sorted(f for f in ctx.funcs if f not in per_func),
        'inlined': sorted(ctx.inlined),
        'extraction_drops': sorted(ctx.dropped),
        'backends': sorted({o.backend for o in real_obls}),
        'solver_time_s': round(sum(o.ms for o in real_obls) / 1000.0, 3),
        'solvers': sorted({o.solver for o in real_obls if o.solver}),
        'vacuity': {'covers_checked': sum(1 for o in real_obls if o.cover and o.expect == 'valid'),
                    'covers_sat': sum(1 for o in real_obls if o.cover_result == 'sat'),
                    'canaries': sum(1 for o in real_obls if o.expect == 'invalid'),
                    'canaries_refuted': sum(1 for o in real_obls if o.expect == 'invalid' and o.result == 'invalid')},
        'engine_crosscheck': ctx.crosscheck,
        'obligation_list': [o.to_json() for o in real_obls][:4000],
        'undecided': [list(u) for u in ctx.undecided],
        'evaluations': ctx.bounded['evaluations'],
        'distinct_nontrivial': len(ctx.bounded['distinct']),
        'rule': ' | '.join(ctx.bounded['rules']) or 'no bounded stand-in for this property',
        'bounded': {'labelled': 'bounded - never counted as proved',
                    'parts': {k: dict({kk: vv for kk, vv in p.items() if kk != 'distinct'}, distinct_nontrivial=len(p['distinct']))
                              for k, p in ctx.bounded['parts'].items()}},
        'samples': (ctx.samples[:8] + ctx.bounded['samples'][:8]) or ['(none)'],
        'known_findings': known_lines,
        'notes': ctx.notes,
    }
    if ctx.selftest is not None:
        cov['selftest'] = ctx.selftest
    ev = {
        'property_id': ctx.prop,
        'tier': ctx.tier,
        'seed': ctx.seed,
        'level': level,
        'coverage': cov,
        'assumptions': ctx.assumptions + ['trusted: ' + t for t in ctx.trusted],
        'wall_s': round(time.time() - ctx.t0, 2),
        'violations': new_violations,
    }
    os.makedirs(os.path.join(VERIF, 'evidence'), exist_ok=True)
    with open(os.path.join(VERIF, 'evidence', ctx.prop + os.environ.get('VERIF_EVIDENCE_SUFFIX', '') + '.json'), 'w') as f:
        json.dump(ev, f, indent=1, default=str)

    if new_violations:
        # a broken callee contract makes callers' cross-checks disagree with CPython: that is the violation
        # already reported, not an engine error
        keep = []
        for e in ctx.errors:
            (ctx.notes if e.startswith('engine cross-check') else keep).append(e)
        ctx.errors = keep
    for line in known_lines:
        print(line)
    if ctx.errors:
        for e in ctx.errors:
            print('CHECK-ERROR: %s' % e)
    if viol_lines:
        for line in viol_lines:
            print(line)
        return 1
    if ctx.errors:
        return 3
    if ctx.undecided:
        for w, r in ctx.undecided:
            print('UNDECIDED: %s: %s' % (w, r[:400]))
        return 2
    print('%s held: %d/%d obligations discharged, %d bounded evaluations (%d distinct non-trivial), %.1fs' % (
        ctx.prop, n_disch, len(real_obls), ctx.bounded['evaluations'], len(ctx.bounded['distinct']), time.time() - ctx.t0))
    return 0


def selftest(ctx):
    """thorough tier: the deliberate-breakage entries and the independently seeded changes that name this property are
    applied to scratch copies (outside /repo and /verif, removed afterwards) and the quick check is run against each;
    harmless refactors must stay green.  The outcome is evidence about the CHECK, it never changes the verdict on /repo."""
    import glob
    from concurrent.futures import ThreadPoolExecutor
    sys.path.insert(0, os.path.join(VERIF, 'selftest'))
    import mutate
    ents = [e for e in json.load(open(os.path.join(VERIF, 'selftest', 'catalogue.json'))) if ctx.prop in e.get('props', [])]
    for meta in sorted(glob.glob(os.path.join(VERIF, 'seeded', '*', 'meta.json'))):
        m = json.load(open(meta))
        if m.get('breaks') == ctx.prop:
            ents.append({'name': 'seeded/' + os.path.basename(os.path.dirname(meta)), 'patch': os.path.join(os.path.dirname(meta), 'patch.diff'),
                         'props': [ctx.prop]})
    os.environ['VERIF_NO_SELFTEST'] = '1'
    with ThreadPoolExecutor(max_workers=2) as ex:
        res = list(ex.map(lambda e: mutate.run_one(ctx.prop, e), ents))
    out = []
    for e, r in zip(ents, res):
        exp = e.get('expect', 'violation')
        out.append({'change': e['name'], 'expected': exp, 'got': r['status'], 'first_line': (r.get('lines') or [''])[0][:160]})
    ctx.selftest = {'entries': out, 'as_expected': sum(1 for o in out if o['expected'] == o['got']), 'total': len(out)}
    miss = [o['change'] for o in out if o['expected'] != o['got']]
    if miss:
        ctx.notes.append('selftest: changes not classified as expected by this check: %s' % miss)


def main(argv=None):
    ap = argparse.ArgumentParser()
    ap.add_argument('prop')
    ap.add_argument('--tier', default=os.environ.get('VERIF_TIER', 'quick'), choices=['quick', 'thorough'])
    ap.add_argument('--replay')
    ap.add_argument('--no-bounded', action='store_true')
    ap.add_argument('--no-proof', action='store_true')
    args = ap.parse_args(argv)
    seed = int(os.environ.get('VERIF_SEED', '0') or 0)
    sys.path.insert(0, VERIF)
    if args.replay:
        from . import replaycmd
        return replaycmd.run(args.prop, args.replay)
    ctx = Ctx(args.prop, args.tier, seed)
    try:
        V.pool(min(16, os.cpu_count() or 1))      # fork the workers before any solver state exists in this process
        mod = importlib.import_module('props.' + args.prop)
        r = real()
        ctx.notes.append('real code: %s (python %s)' % (r.info.get('ok'), r.info.get('py')))
        if not args.no_proof:
            try:
                mod.build(ctx)
            except I.Unsupported as e:
                ctx.undecide('build', 'construct not modelled by the executor: %s' % e)
                ctx.notes.append(traceback.format_exc()[-1500:])
        timeout = 10000 if args.tier == 'quick' else 60000
        run_tasks(ctx, timeout)
        if len(ctx.obligations) == 0 and not args.no_proof and getattr(mod, 'EXPECT_OBLIGATIONS', True) and not ctx.undecided:
            ctx.errors.append('zero obligations generated')
        n = process_obligations(ctx, timeout)
        main_obls = [o for o in ctx.obligations if o.hyps is not None and o.backend != 'finite']
        if args.tier == 'thorough' and main_obls and os.environ.get('VERIF_NO_SECOND') != '1':
            agree, bad = V.crosscheck_solvers(main_obls)
            ctx.crosscheck['solver_agreements'] = ctx.crosscheck.get('solver_agreements', 0) + agree
            ctx.notes.append('solver cross-check (cvc5, z3-4.8.12): %d agreeing answers, %d disagreements' % (agree, len(bad)))
            for b in bad:
                ctx.errors.append('solver disagreement on %s: %s says %s, z3 said %s' % b)
        if not args.no_bounded and hasattr(mod, 'bounded'):
            mod.bounded(ctx)
            run_tasks(ctx, timeout)
        if args.tier == 'thorough' and hasattr(mod, 'thorough_extra'):
            mod.thorough_extra(ctx)
        if args.tier == 'thorough' and os.environ.get('VERIF_NO_SELFTEST') != '1' and REPO == '/repo':
            selftest(ctx)
        return finish(ctx, mod.LEVEL, n, './check %s --tier %s' % (args.prop, args.tier), mod.explanation(ctx))
    except Exception as e:
        print('CHECK-ERROR: %r' % e)
        traceback.print_exc()
        return 3


if __name__ == '__main__':
    sys.exit(main())
