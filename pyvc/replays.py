"""Replay registry: counter-models are turned into concrete inputs for the REAL code (DESIGN 2.6).
Replay descriptions are plain data (kind, payload) so that obligations built in worker processes can be
replayed by the main process."""
import importlib

KINDS = {
    'encoder': 'contracts.encoders:replay_encoder_data',
    'encoder_inj': 'contracts.encoders:replay_inj_data',
    'lookup_int': 'contracts.encoders:replay_lookup_data',
    'table': 'contracts.encoders:replay_table_data',
    'reverse': 'contracts.encoders:replay_reverse_data',
}


def register(kind, target):
    KINDS[kind] = target


def run(ctx, kind, payload, model):
    if kind not in KINDS:
        for mod in ('contracts.relocate', 'contracts.replay_passes', 'contracts.emit', 'contracts.exprs'):
            try:
                importlib.import_module(mod)
            except ImportError:
                pass
    target = KINDS[kind]
    modname, fn = target.split(':')
    f = getattr(importlib.import_module(modname), fn)
    return f(ctx, payload, model)
