"""Replay registry: counter-models are turned into concrete inputs for the REAL code (DESIGN 2.6).
Replay descriptions are plain data (kind, payload) so that obligations built in worker processes can be
replayed by the main process."""
import importlib

KINDS = {
    'encoder': 'contracts.encoders:replay_encoder_data',
    'encoder_inj': 'contracts.encoders:replay_inj_data',
    'lookup_int': 'contracts.encoders:replay_lookup_data',
    'table': 'contracts.encoders:replay_table_data',
    'reverse': 'contracts.encoders:replay_reverse_data',
    'fault_bank': 'bounded.faults:replay',
    'relocate': 'contracts.relocate:replay_relocate',
    'call_int': 'contracts.relocate:replay_call_int',
    'hilo_eval': 'contracts.relocate:replay_hilo_eval',
    'relocate_consumer': 'contracts.relocate:replay_consumer',
    'pass_step': 'contracts.replay_passes:replay_pass_step',
    'compress_rule': 'contracts.replay_passes:replay_compress_rule',
    'pseudo_effect': 'contracts.replay_passes:replay_pseudo_effect',
    'expr_eval': 'contracts.exprs:replay_expr_eval',
    'align_size': 'contracts.emit:replay_align_size',
    'data_range': 'contracts.emit:replay_data_range',
    'cli': 'contracts.cli:replay_cli',
    'dfu': 'contracts.dfu:replay_dfu',
    'purity': 'contracts.frames:replay_purity',
    'encoder_text': 'contracts.parse:replay_encoder_text',
    'spelling': 'contracts.parse:replay_spelling',
    'include_tree': 'contracts.reader:replay_include_tree',
    'pipeline': 'contracts.pipeline:replay_pipeline',
}


def register(kind, target):
    KINDS[kind] = target


_MEMO = {}
MEMO_KINDS = {'pipeline', 'fault_bank', 'dfu', 'cli', 'pass_step', 'compress_rule', 'pseudo_effect', 'data_range', 'expr_eval'}


def run(ctx, kind, payload, model):
    """probe-bank replays do not depend on the model: computed once per (kind, payload) and check run"""
    if kind in MEMO_KINDS:
        import json
        key = (kind, json.dumps(payload, sort_keys=True, default=str))
        if key not in _MEMO:
            _MEMO[key] = _run(ctx, kind, payload, model)
        return _MEMO[key]
    return _run(ctx, kind, payload, model)


def _run(ctx, kind, payload, model):
    if kind not in KINDS:
        for mod in ('contracts.relocate', 'contracts.replay_passes', 'contracts.emit', 'contracts.exprs'):
            try:
                importlib.import_module(mod)
            except ImportError:
                pass
    target = KINDS[kind]
    modname, fn = target.split(':')
    f = getattr(importlib.import_module(modname), fn)
    return f(ctx, payload, model)
