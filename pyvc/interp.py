"""Symbolic AST interpreter for the Python subset bronzebeard is written in.

Execution model (DESIGN 2.2-2.4): a *plain* interpreter over `ast` nodes whose
values may be symbolic (z3 terms).  Whenever control depends on a symbolic
condition the interpreter asks `Run.branch(cond)`; the run follows a prefix of
recorded decisions and registers the alternative for later, so a function is
explored path by path by re-execution from the start (no state copying).
Python-level exceptions of the interpreted program are `PyRaise`; every
partial operation (index, unpack, dict key, attribute, int(), %, ...) raises
the exception CPython would raise, on the path where it would raise it.

Two numeric domains execute the same AST (DESIGN 2.2):
  IntDom - mathematical integers (z3 Int).  Exact for guards, sizes, layout,
           sign_extend/relocate.  A bit-or / bit-and of two symbolic values is
           havocked (fresh integer; `run.havoc` is set).
  BVDom  - 64-bit vectors with a static magnitude bound on every term; used
           for the bit scatter of the encoders, sound under a precondition
           that bounds the inputs (overflow beyond 62 bits => Unsupported).
"""
import ast
import copy as _copy
import itertools
import os
import sys
import re as _re
import struct as _struct

import z3


class Unsupported(Exception):
    """construct / situation the executor does not model: verdict undecided"""


class Infeasible(Exception):
    """the current path condition is unsatisfiable"""


class PyRaise(Exception):
    def __init__(self, exc):
        super().__init__(getattr(exc, 'cls', None) and exc.cls.name)
        self.exc = exc


class _Return(Exception):
    def __init__(self, value):
        self.value = value


class _Break(Exception):
    pass


class _Continue(Exception):
    pass


# --------------------------------------------------------------------------
# values

class Sym:
    """symbolic scalar. sort in {'int','bool','str'}; mag: |value| < 2**mag (BV only)"""
    __slots__ = ('sort', 't', 'mag', 'tz')

    def __init__(self, sort, t, mag=None, tz=0):
        self.sort = sort
        self.t = t
        self.mag = mag
        self.tz = tz        # known number of trailing zero bits (INT back end, for disjoint bit-or)

    def __deepcopy__(self, memo):
        return self

    def __repr__(self):
        return 'Sym<%s %s>' % (self.sort, self.t)

    def __hash__(self):
        return hash((self.sort, self.t.get_id()))

    def __eq__(self, other):
        return isinstance(other, Sym) and self.sort == other.sort and self.t.eq(other.t)


class Opaque:
    """a value nothing is known about (message strings, file handles, ...)"""

    def __init__(self, tag):
        self.tag = tag

    def __deepcopy__(self, memo):
        return self

    def __repr__(self):
        return 'Opaque<%s>' % self.tag


class ClassVal:
    def __init__(self, name, bases, methods, builtin=False):
        self.name = name
        self.bases = bases
        self.methods = methods
        self.builtin = builtin

    def __deepcopy__(self, memo):
        return self

    def mro(self):
        out = [self]
        for b in self.bases:
            for c in b.mro():
                if c not in out:
                    out.append(c)
        return out

    def issub(self, other):
        return other in self.mro()

    def find(self, name, after=None):
        m = self.mro()
        if after is not None:
            m = m[m.index(after) + 1:]
        for c in m:
            if name in c.methods:
                return c, c.methods[name]
        return None, None

    def __repr__(self):
        return '<class %s>' % self.name


class SObj:
    def __init__(self, cls, fields=None):
        self.cls = cls
        self.fields = fields if fields is not None else {}

    def __repr__(self):
        return '%s(%s)' % (self.cls.name, ', '.join('%s=%r' % kv for kv in self.fields.items()))


class FuncVal:
    def __init__(self, node, env, qualname, cls=None):
        self.node = node
        self.env = env
        self.qualname = qualname
        self.cls = cls      # defining class for methods (super())
        self.name = getattr(node, 'name', '<lambda>')
        self.kind = None    # 'static' | 'class' | 'property' (decorators)
        self.unknown_decorator = None

    def __deepcopy__(self, memo):
        return self

    def __repr__(self):
        return '<func %s>' % self.qualname


class BoundMethod:
    def __init__(self, obj, func):
        self.obj = obj
        self.func = func


class Partial:
    def __init__(self, func, args, kwargs):
        self.func = func
        self.args = args
        self.kwargs = kwargs

    def __deepcopy__(self, memo):
        return self

    def __repr__(self):
        return 'partial(%r, %r, %r)' % (self.func, self.args, self.kwargs)


class Builtin:
    def __init__(self, name, impl):
        self.name = name
        self.impl = impl

    def __deepcopy__(self, memo):
        return self

    def __repr__(self):
        return '<builtin %s>' % self.name


class ModuleStub:
    def __init__(self, name, attrs=None):
        self.name = name
        self.attrs = attrs or {}

    def __deepcopy__(self, memo):
        return self


class Env:
    """lexical scope chain"""

    def __init__(self, parent=None, vars=None):
        self.parent = parent
        self.vars = vars if vars is not None else {}

    def lookup(self, name):
        e = self
        while e is not None:
            if name in e.vars:
                return e.vars[name]
            e = e.parent
        raise KeyError(name)

    def __deepcopy__(self, memo):
        return self


class SuperProxy:
    def __init__(self, obj, cls):
        self.obj = obj
        self.cls = cls


# string interning: symbolic strings are z3 integers ("string identities");
# only equality is interpreted, every literal has a distinct identity >= 0
_STR_IDS = {}
_STR_BY_ID = {}


def str_id(s):
    if s not in _STR_IDS:
        i = len(_STR_IDS)
        _STR_IDS[s] = i
        _STR_BY_ID[i] = s
    return _STR_IDS[s]


def str_of_id(i):
    return _STR_BY_ID.get(i)


# --------------------------------------------------------------------------
# numeric domains

def _is_pow2(n):
    return n > 0 and n & (n - 1) == 0


class IntDom:
    name = 'INT'

    def __init__(self, run):
        self.run = run

    def const(self, n):
        tz = (n & -n).bit_length() - 1 if n else 64
        return Sym('int', z3.IntVal(n), tz=tz)

    def var(self, name, mag=None):
        return Sym('int', z3.Int(name))

    def lift(self, v):
        if isinstance(v, Sym):
            if v.sort == 'bool':
                return Sym('int', z3.If(v.t, z3.IntVal(1), z3.IntVal(0)))
            return v
        if isinstance(v, bool):
            return self.const(int(v))
        return self.const(v)

    def add(self, a, b):
        return Sym('int', a.t + b.t)

    def sub(self, a, b):
        return Sym('int', a.t - b.t)

    def mul(self, a, b):
        return Sym('int', a.t * b.t)

    def neg(self, a):
        return Sym('int', -a.t)

    def invert(self, a):
        return Sym('int', -a.t - 1)

    def shl(self, a, k):
        return Sym('int', a.t * (2 ** k), tz=(a.tz or 0) + k)

    def shr(self, a, k):
        return Sym('int', a.t / z3.IntVal(2 ** k))     # Euclidean = floor for positive divisor

    def mod_const(self, a, n):
        if n > 0:
            return Sym('int', a.t % n)
        return Sym('int', -((-a.t) % (-n)))

    def floordiv_const(self, a, n):
        if n > 0:
            return Sym('int', a.t / z3.IntVal(n))
        return Sym('int', (-a.t) / z3.IntVal(-n))

    def mod_sym(self, a, b):
        # caller has established b != 0 on this path
        return Sym('int', z3.If(b.t > 0, a.t % b.t, -((-a.t) % (-b.t))))

    def floordiv_sym(self, a, b):
        return Sym('int', z3.If(b.t > 0, a.t / b.t, (-a.t) / (-b.t)))

    def and_const(self, a, m):
        if m < 0:
            # a & m = a - (a & ~m), ~m >= 0
            return self.sub(a, self.and_const(a, ~m))
        # decompose the mask into runs of ones
        total = None
        bit = 0
        while (m >> bit) != 0:
            if (m >> bit) & 1:
                lo = bit
                while (m >> bit) & 1:
                    bit += 1
                piece = ((a.t / z3.IntVal(2 ** lo)) % (2 ** (bit - lo))) * (2 ** lo) if lo else a.t % (2 ** bit)
                total = piece if total is None else total + piece
            else:
                bit += 1
        if total is None:
            return self.const(0)
        return Sym('int', total)

    def bitop(self, op, a, b):
        # `hi | lo` where hi is a multiple of 2**k and 0 <= lo < 2**k on this path is hi + lo (exact)
        if op == '|':
            for hi, lo in ((a, b), (b, a)):
                k = hi.tz or 0
                if k > 0 and k < 64 and self.run.entails(z3.And(lo.t >= 0, lo.t < 2 ** k, hi.t >= 0)):
                    return Sym('int', hi.t + lo.t, tz=min(k, lo.tz or 0))
        # otherwise not expressible in linear integer arithmetic -> havoc (over-approximation)
        self.run.havoc = True
        return Sym('int', z3.Int(self.run.fresh_name('havoc')))

    def cmp(self, op, a, b):
        f = {'<': lambda x, y: x < y, '<=': lambda x, y: x <= y, '>': lambda x, y: x > y,
             '>=': lambda x, y: x >= y, '==': lambda x, y: x == y, '!=': lambda x, y: x != y}[op]
        return Sym('bool', f(a.t, b.t))

    def c_uint32(self, a):
        return Sym('int', a.t % (2 ** 32))

    def c_int32(self, a):
        return Sym('int', ((a.t + 2 ** 31) % (2 ** 32)) - 2 ** 31)


class BVDom:
    name = 'BV'
    W = 64
    LIMIT = 62

    def __init__(self, run):
        self.run = run

    def _chk(self, mag):
        if mag > self.LIMIT:
            raise Unsupported('BV back end: magnitude bound 2**%d exceeds %d bits' % (mag, self.LIMIT))
        return mag

    def const(self, n):
        mag = self._chk(abs(n).bit_length() + 1)
        return Sym('int', z3.BitVecVal(n, self.W), mag)

    def var(self, name, mag=40):
        return Sym('int', z3.BitVec(name, self.W), mag)

    def lift(self, v):
        if isinstance(v, Sym):
            if v.sort == 'bool':
                return Sym('int', z3.If(v.t, z3.BitVecVal(1, self.W), z3.BitVecVal(0, self.W)), 2)
            return v
        if isinstance(v, bool):
            return self.const(int(v))
        return self.const(v)

    def add(self, a, b):
        return Sym('int', a.t + b.t, self._chk(max(a.mag, b.mag) + 1))

    def sub(self, a, b):
        return Sym('int', a.t - b.t, self._chk(max(a.mag, b.mag) + 1))

    def mul(self, a, b):
        return Sym('int', a.t * b.t, self._chk(a.mag + b.mag))

    def neg(self, a):
        return Sym('int', -a.t, self._chk(a.mag + 1))

    def invert(self, a):
        return Sym('int', ~a.t, self._chk(a.mag + 1))

    def shl(self, a, k):
        return Sym('int', a.t << k, self._chk(a.mag + k))

    def shr(self, a, k):
        return Sym('int', a.t >> k, a.mag)      # z3 '>>' on BitVec is arithmetic

    def mod_const(self, a, n):
        # z3 '%' on BitVec is bvsmod: sign follows the divisor, as in Python
        return Sym('int', a.t % z3.BitVecVal(n, self.W), self._chk(abs(n).bit_length() + 1))

    def floordiv_const(self, a, n):
        if n > 0 and _is_pow2(n):
            return Sym('int', a.t >> (n.bit_length() - 1), a.mag)
        raise Unsupported('BV floor division by %r' % n)

    def mod_sym(self, a, b):
        return Sym('int', a.t % b.t, self._chk(b.mag))

    def floordiv_sym(self, a, b):
        raise Unsupported('BV floor division by a symbolic value')

    def and_const(self, a, m):
        mag = abs(m).bit_length() + 1 if m >= 0 else a.mag + 1
        return Sym('int', a.t & z3.BitVecVal(m, self.W), self._chk(min(mag, a.mag + 1) if m >= 0 else mag))

    def bitop(self, op, a, b):
        f = {'|': lambda x, y: x | y, '&': lambda x, y: x & y, '^': lambda x, y: x ^ y}[op]
        return Sym('int', f(a.t, b.t), self._chk(max(a.mag, b.mag)))

    def cmp(self, op, a, b):
        f = {'<': lambda x, y: x < y, '<=': lambda x, y: x <= y, '>': lambda x, y: x > y,
             '>=': lambda x, y: x >= y, '==': lambda x, y: x == y, '!=': lambda x, y: x != y}[op]
        return Sym('bool', f(a.t, b.t))      # signed comparisons

    def c_uint32(self, a):
        return Sym('int', a.t & z3.BitVecVal(0xffffffff, self.W), 33)

    def c_int32(self, a):
        return Sym('int', z3.SignExt(32, z3.Extract(31, 0, a.t)), 32)


# --------------------------------------------------------------------------
# one path

class Run:
    def __init__(self, prefix, domcls, timeout_ms=5000):
        self.prefix = list(prefix)
        self.trace = []
        self.pc = []
        self.pending = []
        self.havoc = False
        self.counter = itertools.count()
        self.dom = domcls(self)
        self.effects = []
        self.notes = {}
        self.solver = z3.Solver()
        self.solver.set('timeout', timeout_ms)
        self.checks = 0

    def fresh_name(self, base):
        return '%s!%d' % (base, next(self.counter))

    def assume(self, cond):
        """add a hypothesis (contract postcondition, precondition) to the path"""
        if isinstance(cond, Sym):
            cond = cond.t
        if cond is True:
            return
        if cond is False:
            raise Infeasible()
        self.pc.append(cond)
        self.solver.add(cond)

    def entails(self, cond):
        """pc => cond (decided now; unknown counts as no)"""
        self.checks += 1
        self.solver.push()
        self.solver.add(z3.Not(cond))
        r = self.solver.check()
        self.solver.pop()
        return r == z3.unsat

    def _feasible(self, cond):
        self.checks += 1
        self.solver.push()
        self.solver.add(cond)
        r = self.solver.check()
        self.solver.pop()
        if r == z3.unknown:
            # treat as feasible (over-approximate the path set; sound for universal claims)
            return True
        return r == z3.sat

    def branch(self, cond):
        """decide a symbolic condition; returns the Python bool taken on this path"""
        if isinstance(cond, Sym):
            cond = cond.t
        if isinstance(cond, bool):
            return cond
        cond = z3.simplify(cond)
        if z3.is_true(cond):
            return True
        if z3.is_false(cond):
            return False
        i = len(self.trace)
        if i < len(self.prefix):
            choice = self.prefix[i]
        else:
            t_ok = self._feasible(cond)
            f_ok = self._feasible(z3.Not(cond))
            if t_ok and f_ok:
                choice = True
                self.pending.append(self.trace + [False])
            elif t_ok:
                choice = True
            elif f_ok:
                choice = False
            else:
                raise Infeasible()
        self.trace.append(choice)
        c = cond if choice else z3.Not(cond)
        self.pc.append(c)
        self.solver.add(c)
        return choice


class Path:
    def __init__(self, run, kind, value):
        self.pc = list(run.pc)
        self.kind = kind            # 'return' | 'raise'
        self.value = value          # return value | exception SObj
        self.havoc = run.havoc
        self.effects = list(run.effects)
        self.notes = dict(run.notes)
        self.trace = list(run.trace)

    @property
    def exc_name(self):
        return self.value.cls.name if self.kind == 'raise' else None

    def __repr__(self):
        return 'Path<%s %r | %s>' % (self.kind, self.value if self.kind == 'return' else self.exc_name, self.pc)


def explore(body, domcls=IntDom, max_paths=20000, setup=None):
    """run `body(interp)` along every feasible path; returns list[Path].

    `body` receives a fresh Interp-bound Run each time and must be
    deterministic given the decisions."""
    paths = []
    work = [[]]
    import time as _time
    budget = float(os.environ.get('VERIF_EXPLORE_BUDGET_S', '180'))
    t0 = _time.time()
    while work:
        if _time.time() - t0 > budget:
            # never hang: an exploration that does not finish within its budget is a tool limit (undecided), not a verdict
            raise Unsupported('path exploration did not finish within %d s (%d paths so far, %d pending)' % (budget, len(paths), len(work)))
        prefix = work.pop()
        run = Run(prefix, domcls)
        try:
            v = body(run)
            paths.append(Path(run, 'return', v))
        except PyRaise as e:
            paths.append(Path(run, 'raise', e.exc))
        except Infeasible:
            pass
        work.extend(run.pending)
        if len(paths) > max_paths:
            raise Unsupported('path explosion (> %d paths)' % max_paths)
    return paths


# --------------------------------------------------------------------------
# builtin exception classes

def _mk_exc_classes():
    c = {}

    def mk(name, *bases):
        c[name] = ClassVal(name, [c[b] for b in bases], {}, builtin=True)
    mk('object')
    mk('BaseException', 'object')
    mk('SystemExit', 'BaseException')
    mk('KeyboardInterrupt', 'BaseException')
    mk('Exception', 'BaseException')
    mk('ArithmeticError', 'Exception')
    mk('ZeroDivisionError', 'ArithmeticError')
    mk('OverflowError', 'ArithmeticError')
    mk('AssertionError', 'Exception')
    mk('AttributeError', 'Exception')
    mk('LookupError', 'Exception')
    mk('IndexError', 'LookupError')
    mk('KeyError', 'LookupError')
    mk('NameError', 'Exception')
    mk('UnboundLocalError', 'NameError')
    mk('OSError', 'Exception')
    mk('FileNotFoundError', 'OSError')
    mk('PermissionError', 'OSError')
    mk('IsADirectoryError', 'OSError')
    mk('TypeError', 'Exception')
    mk('ValueError', 'Exception')
    mk('UnicodeError', 'ValueError')
    mk('UnicodeDecodeError', 'UnicodeError')
    mk('UnicodeEncodeError', 'UnicodeError')
    mk('SyntaxError', 'Exception')
    mk('RuntimeError', 'Exception')
    mk('NotImplementedError', 'RuntimeError')
    mk('StopIteration', 'Exception')
    mk('struct.error', 'Exception')
    mk('usb.core.USBError', 'OSError')
    return c


EXC = _mk_exc_classes()
ABC_CLASS = ClassVal('ABC', [EXC['object']], {}, builtin=True)


def make_exc(name, *args):
    return SObj(EXC[name], {'args': tuple(args)})


def py_raise(name, *args):
    raise PyRaise(make_exc(name, *args))


# --------------------------------------------------------------------------
# the interpreter

_CMP = {ast.Lt: '<', ast.LtE: '<=', ast.Gt: '>', ast.GtE: '>=', ast.Eq: '==', ast.NotEq: '!='}


def is_sym(v):
    return isinstance(v, Sym)


def is_intlike(v):
    return (isinstance(v, int)) or (isinstance(v, Sym) and v.sort in ('int', 'bool'))


class Interp:
    def __init__(self, run, module_envs, contracts=None, inline_only=False, hooks=None):
        self.run = run
        self.dom = run.dom
        self.mods = module_envs            # name -> Env (module globals)
        self.contracts = contracts or {}
        self.hooks = hooks or {}
        self.depth = 0

    # ---- helpers -------------------------------------------------------
    def truth(self, v):
        """Python truthiness; forks on symbolic values"""
        if isinstance(v, Sym):
            if v.sort == 'bool':
                return self.run.branch(v.t)
            if v.sort == 'int':
                return self.run.branch(v.t != self.dom.const(0).t)
            raise Unsupported('truth of symbolic %s' % v.sort)
        if isinstance(v, (SObj, FuncVal, Builtin, ClassVal, Partial, BoundMethod)):
            if isinstance(v, SObj):
                c, m = v.cls.find('__len__')
                if m is not None:
                    return self.truth(self.call(BoundMethod(v, m), [], {}))
            return True
        if isinstance(v, Opaque):
            h = self.hooks.get('truth')
            if h:
                r = h(self, v)
                if r is not None:
                    return self.run.branch(r) if not isinstance(r, bool) else r
            raise Unsupported('truth of %r' % v)
        if isinstance(v, SymDictBase):
            raise Unsupported('truth of symbolic dict')
        return bool(v)

    def as_bool_sym(self, v):
        """value as z3 Bool without forking (None if not possible)"""
        if isinstance(v, Sym):
            if v.sort == 'bool':
                return v.t
            if v.sort == 'int':
                return v.t != self.dom.const(0).t
            return None
        if isinstance(v, (bool, int, str, type(None), list, tuple, dict)):
            return z3.BoolVal(bool(v))
        return None

    def type_error(self, msg='unsupported operand'):
        py_raise('TypeError', msg)

    # ---- arithmetic ----------------------------------------------------
    def binop(self, op, a, b):
        d = self.dom
        if not is_sym(a) and not is_sym(b):
            return self.concrete_binop(op, a, b)
        # symbolic string concatenation etc. is not modelled
        if not (is_intlike(a) and is_intlike(b)):
            if isinstance(a, (str, bytes, list, tuple)) and op is ast.Mult and is_intlike(b):
                return SymRepeat(a, b)
            if (isinstance(a, str) or (is_sym(a) and a.sort == 'str')) and op is ast.Mod:
                return Opaque('str')
            if (is_sym(a) and a.sort == 'str') or (is_sym(b) and b.sort == 'str'):
                if op is ast.Add and (isinstance(a, str) or isinstance(b, str) or (is_sym(a) and is_sym(b))):
                    return Opaque('str')
                if op is ast.Mult and (is_intlike(a) or is_intlike(b)):
                    return Opaque('str')        # repetition of an uninterpreted string
            if isinstance(a, (Opaque,)) or isinstance(b, (Opaque,)):
                h = self.hooks.get('binop')
                if h:
                    r = h(self, op, a, b)
                    if r is not NotImplemented:
                        return r
                raise Unsupported('binop on opaque value')
            if self._binop_is_type_error(op, a, b):
                self.type_error()
            raise Unsupported('binop %s on %s and %s' % (op.__name__, type(a).__name__, type(b).__name__))
        if op is ast.Add:
            return d.add(d.lift(a), d.lift(b))
        if op is ast.Sub:
            return d.sub(d.lift(a), d.lift(b))
        if op is ast.Mult:
            return d.mul(d.lift(a), d.lift(b))
        if op is ast.LShift:
            if is_sym(b):
                b = self.concretize(b, 'shift by symbolic amount')
            if b < 0:
                py_raise('ValueError', 'negative shift count')
            return d.shl(d.lift(a), b)
        if op is ast.RShift:
            if is_sym(b):
                b = self.concretize(b, 'shift by symbolic amount')
            if b < 0:
                py_raise('ValueError', 'negative shift count')
            return d.shr(d.lift(a), b)
        if op in (ast.Mod, ast.FloorDiv):
            if is_sym(b):
                bz = d.lift(b)
                if self.run.branch(bz.t == d.const(0).t):
                    py_raise('ZeroDivisionError', 'integer division or modulo by zero')
                if isinstance(d, IntDom):
                    # Python's % and // follow the sign of the divisor; when the path fixes that sign the term is the plain
                    # SMT mod / div (no case split left for the solver)
                    az = d.lift(a)
                    if self.run.entails(bz.t > 0):
                        return Sym('int', az.t % bz.t if op is ast.Mod else az.t / bz.t)
                    if self.run.entails(bz.t < 0):
                        return Sym('int', -((-az.t) % (-bz.t)) if op is ast.Mod else (-az.t) / (-bz.t))
                return d.mod_sym(d.lift(a), bz) if op is ast.Mod else d.floordiv_sym(d.lift(a), bz)
            if b == 0:
                py_raise('ZeroDivisionError', 'integer division or modulo by zero')
            return d.mod_const(d.lift(a), b) if op is ast.Mod else d.floordiv_const(d.lift(a), b)
        if op is ast.BitAnd:
            if not is_sym(b):
                return d.and_const(d.lift(a), int(b))
            if not is_sym(a):
                return d.and_const(d.lift(b), int(a))
            return d.bitop('&', d.lift(a), d.lift(b))
        if op is ast.BitOr:
            if not is_sym(b) and int(b) == 0:
                return d.lift(a)
            if not is_sym(a) and int(a) == 0:
                return d.lift(b)
            if d.name == 'INT' and (not is_sym(a) or not is_sym(b)):
                # x | c == x + c - (x & c)   (two's complement identity, all integers)
                x, c = (a, int(b)) if is_sym(a) else (b, int(a))
                x = d.lift(x)
                return d.sub(d.add(x, d.const(c)), d.and_const(x, c))
            return d.bitop('|', d.lift(a), d.lift(b))
        if op is ast.BitXor:
            if d.name == 'INT' and (not is_sym(a) or not is_sym(b)):
                # x ^ c == x + c - 2 * (x & c)
                x, c = (a, int(b)) if is_sym(a) else (b, int(a))
                x = d.lift(x)
                return d.sub(d.add(x, d.const(c)), d.mul(d.const(2), d.and_const(x, c)))
            return d.bitop('^', d.lift(a), d.lift(b))
        if op is ast.Div:
            return Ratio(a, b)
        if op is ast.Pow:
            raise Unsupported('symbolic power')
        raise Unsupported('binop %s' % op.__name__)

    @staticmethod
    def _binop_is_type_error(op, a, b):
        """True only where CPython certainly raises TypeError: a number against None / a string / a sequence under an
        operator that has no meaning for that pair (repetition `*` and formatting `%` are meaningful)"""
        def kind(x):
            if x is None:
                return 'none'
            if is_intlike(x):
                return 'num'
            if isinstance(x, (str, bytes, bytearray)) or (is_sym(x) and x.sort == 'str'):
                return 'text'
            if isinstance(x, (list, tuple)):
                return 'seq'
            if isinstance(x, (dict, set, frozenset)):
                return 'coll'
            return None
        ka, kb = kind(a), kind(b)
        if ka is None or kb is None:
            return False
        if 'none' in (ka, kb):
            return True
        pair = {ka, kb}
        if pair == {'num', 'text'} or pair == {'num', 'seq'}:
            if op is ast.Mult:
                return False
            if op is ast.Mod and ka == 'text':
                return False
            return True
        if pair == {'num', 'coll'}:
            return True
        return False

    def concrete_binop(self, op, a, b):
        import operator as o
        f = {ast.Add: o.add, ast.Sub: o.sub, ast.Mult: o.mul, ast.LShift: o.lshift, ast.RShift: o.rshift,
             ast.Mod: o.mod, ast.FloorDiv: o.floordiv, ast.BitAnd: o.and_, ast.BitOr: o.or_,
             ast.BitXor: o.xor, ast.Div: o.truediv, ast.Pow: o.pow}.get(op)
        if f is None:
            raise Unsupported('binop %s' % op.__name__)
        for x in (a, b):
            if isinstance(x, (SObj, Opaque, ClassVal, FuncVal, SymDictBase)):
                if isinstance(x, Opaque):
                    h = self.hooks.get('binop')
                    if h:
                        r = h(self, op, a, b)
                        if r is not NotImplemented:
                            return r
                    raise Unsupported('binop on opaque value')
                self.type_error()
        if isinstance(a, set) and isinstance(b, set):
            return f(a, b)
        try:
            return f(a, b)
        except Exception as e:
            self.reraise(e)

    def reraise(self, e):
        """turn a host exception raised while evaluating a *concrete* operation into the interpreted one"""
        name = type(e).__name__
        if isinstance(e, _struct.error):
            name = 'struct.error'
        if isinstance(e, (Unsupported, Infeasible, PyRaise, _Return, _Break, _Continue)):
            raise e
        if name not in EXC:
            for k in type(e).__mro__:
                if k.__name__ in EXC:
                    name = k.__name__
                    break
            else:
                raise Unsupported('host exception %r' % e)
        py_raise(name, *e.args)

    def compare(self, op, a, b):
        """returns bool or Sym bool"""
        d = self.dom
        if isinstance(op, (ast.Is, ast.IsNot)):
            if is_sym(a) or is_sym(b):
                if a is None or b is None:
                    r = False     # a symbolic scalar is never None
                else:
                    raise Unsupported('identity on symbolic values')
            elif a is None or b is None or isinstance(a, (bool, SObj, ClassVal)) or isinstance(b, (bool, SObj, ClassVal)):
                r = a is b
            else:
                r = a is b
            return r if isinstance(op, ast.Is) else not r
        if isinstance(op, (ast.In, ast.NotIn)):
            r = self.contains(b, a)
            if isinstance(op, ast.In):
                return r
            return self.not_(r)
        o = _CMP[type(op)]
        if not is_sym(a) and not is_sym(b):
            if isinstance(a, (SObj, Opaque, SymDictBase)) or isinstance(b, (SObj, Opaque, SymDictBase)):
                h = self.hooks.get('opaque_eq')
                if h and o in ('==', '!=') and a is not b:
                    r = h(self, a, b)
                    if r is not None:
                        return r if o == '==' else self.not_(r)
                if o == '==':
                    if isinstance(a, Opaque) or isinstance(b, Opaque):
                        if a is b:
                            return True
                        raise Unsupported('comparison with opaque value')
                    return a is b
                if o == '!=':
                    if isinstance(a, Opaque) or isinstance(b, Opaque):
                        if a is b:
                            return False
                        raise Unsupported('comparison with opaque value')
                    return a is not b
                self.type_error("'%s' not supported" % o)
            if isinstance(a, (list, tuple)) and isinstance(b, (list, tuple)) and o in ('==', '!='):
                if type(a) is not type(b):
                    return o == '!='
                if len(a) != len(b):
                    return o == '!='
                acc = True
                for x, y in zip(a, b):
                    acc = self.and_(acc, self.compare(ast.Eq(), x, y))
                return acc if o == '==' else self.not_(acc)
            try:
                return {'<': lambda: a < b, '<=': lambda: a <= b, '>': lambda: a > b, '>=': lambda: a >= b,
                        '==': lambda: a == b, '!=': lambda: a != b}[o]()
            except Exception as e:
                self.reraise(e)
        # at least one symbolic
        sa = a.sort if is_sym(a) else None
        sb = b.sort if is_sym(b) else None
        if (sa == 'str' or isinstance(a, str)) and (sb == 'str' or isinstance(b, str)):
            if o not in ('==', '!='):
                raise Unsupported('ordering of symbolic strings')
            ta = a.t if is_sym(a) else z3.IntVal(str_id(a))
            tb = b.t if is_sym(b) else z3.IntVal(str_id(b))
            return Sym('bool', ta == tb if o == '==' else ta != tb)
        if is_intlike(a) and is_intlike(b):
            return d.cmp(o, d.lift(a), d.lift(b))
        # mixed types: == is False, ordering is a TypeError
        if o == '==':
            return False
        if o == '!=':
            return True
        self.type_error("'%s' not supported between these types" % o)

    def not_(self, r):
        if isinstance(r, Sym):
            return Sym('bool', z3.Not(r.t))
        return not r

    def and_(self, a, b):
        if a is False or b is False:
            return False
        if a is True:
            return b
        if b is True:
            return a
        return Sym('bool', z3.And(a.t, b.t))

    def or_(self, a, b):
        if a is True or b is True:
            return True
        if a is False:
            return b
        if b is False:
            return a
        return Sym('bool', z3.Or(a.t, b.t))

    def contains(self, container, x):
        if isinstance(container, SymDictBase):
            return container.contains(self, x)
        if isinstance(container, SymRepeat):
            raise Unsupported('in on symbolic repeat')
        if isinstance(container, (Sym, Opaque)):
            raise Unsupported('membership in symbolic container')
        if isinstance(container, SObj):
            raise Unsupported('membership in object')
        if isinstance(container, str):
            if is_sym(x):
                raise Unsupported('substring test with symbolic needle')
            if not isinstance(x, str):
                self.type_error('in <string> requires string')
            return x in container
        if is_sym(x):
            acc = False
            keys = list(container.keys()) if isinstance(container, dict) else list(container)
            for k in keys:
                if x.sort == 'str' and not (isinstance(k, str) or (is_sym(k) and k.sort == 'str')):
                    continue
                if x.sort in ('int', 'bool') and not is_intlike(k):
                    continue
                acc = self.or_(acc, self.compare(ast.Eq(), x, k))
            return acc
        if isinstance(x, (SObj, Opaque)):
            def same(k):
                return k is x or (hasattr(k, 'key') and hasattr(x, 'key') and k.key() == x.key())
            if isinstance(x, Opaque) and not hasattr(x, 'key'):
                if any(k is x for k in container):
                    return True
                if len(container) == 0:
                    return False
                if all(isinstance(k, (int, str, bytes, bool, type(None))) for k in container):
                    h = self.hooks.get('opaque_in')
                    if h:
                        return h(self, container, x)
                    # an unknown value against known members: either way
                    return Sym('bool', z3.Bool(self.run.fresh_name('opaque_member')))
                if isinstance(container, (list, tuple)) and all(isinstance(k, (int, str, bytes, bool, type(None), Opaque)) for k in container):
                    # unknown value against unknown members (none of them the same object): either way
                    return Sym('bool', z3.Bool(self.run.fresh_name('opaque_member')))
                raise Unsupported('membership of opaque value')
            return any(same(k) for k in container)
        keys = list(container.keys()) if isinstance(container, dict) else list(container)
        acc = False
        for k in keys:
            if is_sym(k):
                acc = self.or_(acc, self.compare(ast.Eq(), x, k))
            elif isinstance(k, (SObj, Opaque)):
                continue
            else:
                try:
                    if k == x:
                        return True
                except Exception:
                    pass
        return acc

    # ---- attribute / subscript ----------------------------------------
    def getattr(self, obj, name, node=None):
        if isinstance(obj, SObj):
            if name in obj.fields:
                return obj.fields[name]
            if name == '__class__':
                return obj.cls
            if name == '__dict__':
                return obj.fields
            c, m = obj.cls.find(name)
            if m is not None:
                if isinstance(m, FuncVal):
                    if m.kind == 'static':
                        return m
                    if m.kind == 'class':
                        return BoundMethod(obj.cls, m)
                    if m.kind == 'property':
                        return self.call_func(m, [obj], {}, self_obj=obj)
                    return BoundMethod(obj, m)
                return m
            if obj.cls.builtin or any(k.builtin and k.name != 'object' and k.name != 'ABC' for k in obj.cls.mro()):
                if name == 'args':
                    return obj.fields.get('args', ())
            py_raise('AttributeError', "'%s' object has no attribute '%s'" % (obj.cls.name, name))
        if isinstance(obj, SuperProxy):
            c, m = obj.obj.cls.find(name, after=obj.cls)
            if m is None:
                if name == '__init__':
                    return Builtin('object.__init__', lambda it, a, k: self._base_init(obj.obj, a))
                py_raise('AttributeError', name)
            return BoundMethod(obj.obj, m)
        if isinstance(obj, ModuleStub):
            if name in obj.attrs:
                return obj.attrs[name]
            if getattr(obj, 'lazy', False):
                return lazy_module_attr(obj, name)
            raise Unsupported('module attribute %s.%s' % (obj.name, name))
        if isinstance(obj, ClassVal):
            if name == '__name__':
                return obj.name
            c, m = obj.find(name)
            if m is not None:
                if isinstance(m, FuncVal) and m.kind == 'class':
                    return BoundMethod(obj, m)
                if isinstance(m, FuncVal) and m.kind == 'property':
                    raise Unsupported('property object %s.%s' % (obj.name, name))
                return m
            py_raise('AttributeError', name)
        if isinstance(obj, SymDictBase):
            return obj.getattr(self, name)
        if isinstance(obj, Sym):
            return self.sym_method(obj, name)
        if isinstance(obj, Opaque):
            h = self.hooks.get('opaque_attr')
            if h:
                return h(self, obj, name)
            raise Unsupported('attribute %s of %r' % (name, obj))
        if isinstance(obj, FuncVal) and name == '__name__':
            return obj.name
        if isinstance(obj, FuncVal):
            attrs = getattr(obj, 'attrs', None)
            if attrs is not None and name in attrs:
                return attrs[name]
            py_raise('AttributeError', "'function' object has no attribute '%s'" % name)
        if isinstance(obj, Builtin) and obj.name == 'int' and name == 'from_bytes':
            def from_bytes(it, a, k):
                data = a[0]
                order = a[1] if len(a) > 1 else k.get('byteorder', 'big')
                signed = k.get('signed', False)
                if isinstance(data, (bytes, bytearray)):
                    return int.from_bytes(data, order, signed=signed)
                if isinstance(data, ByteSeq) and not signed:
                    items = data.items if order == 'little' else list(reversed(data.items))
                    tot = 0
                    for i, b in enumerate(items):
                        tot = it.binop(ast.Add, tot, it.binop(ast.Mult, b, 256 ** i))
                    return tot
                raise Unsupported('int.from_bytes(%r)' % (data,))
            return Builtin('int.from_bytes', from_bytes)
        if isinstance(obj, CUInt):
            if name == 'value':
                return obj.value
            py_raise('AttributeError', name)
        if isinstance(obj, Partial):
            if name == 'func':
                return obj.func
            if name == 'keywords':
                return obj.kwargs
            if name == 'args':
                return tuple(obj.args)
        if isinstance(obj, ByteBuf):
            if name == 'extend' and not obj.frozen:
                def ext(it, a, k, obj=obj):
                    it.note_mutation(obj, 'extend')
                    x = a[0]
                    if isinstance(x, ByteBuf):
                        obj.parts.extend(x.parts)
                    elif isinstance(x, (bytes, bytearray)):
                        obj.parts.append(bytes(x))
                    elif isinstance(x, (Opaque, SymRepeat)):
                        obj.parts.append(x)
                    else:
                        it.type_error('can only extend with bytes')
                    return None
                return Builtin('bytearray.extend', ext)
            if name == 'hex':
                return Builtin('bytes.hex', lambda it, a, k: Opaque('str'))
            py_raise('AttributeError', name) if obj.frozen else None
            raise Unsupported('bytearray.%s' % name)
        if isinstance(obj, SymRepeat):
            raise Unsupported('attribute of symbolic repeat')
        # concrete python values: bound builtin method
        return self.concrete_method(obj, name)

    def _base_init(self, obj, args):
        if obj.cls.issub(EXC['BaseException']):
            obj.fields['args'] = tuple(args)
        return None

    def concrete_method(self, obj, name):
        if isinstance(obj, (int, bool)) and not hasattr(obj, name):
            py_raise('AttributeError', "'%s' object has no attribute '%s'" % (type(obj).__name__, name))
        if not hasattr(obj, name):
            py_raise('AttributeError', "'%s' object has no attribute '%s'" % (type(obj).__name__, name))
        attr = getattr(obj, name)
        if not callable(attr):
            return attr

        def impl(it, args, kwargs, obj=obj, name=name):
            if name == 'format' and isinstance(obj, str):
                if any(not isinstance(a, (int, str, bool, type(None), float, bytes)) for a in list(args) + list(kwargs.values())):
                    return Opaque('str')
            if name == 'join' and isinstance(obj, str):
                seq = list(args[0])
                if any(is_sym(x) for x in seq):
                    if len(seq) == 1:
                        if seq[0].sort != 'str':
                            it.type_error('sequence item: expected str')
                        return seq[0]
                    return Opaque('str')
            if name == 'join' and isinstance(obj, (bytes, bytearray)) and args:
                seq = list(it.iterate(args[0]))
                if any(not isinstance(x, (bytes, bytearray)) for x in seq):
                    if len(obj) == 0 and all(isinstance(x, (bytes, bytearray, Opaque, SymRepeat, ByteBuf)) for x in seq):
                        parts = []
                        for x in seq:
                            parts += x.parts if isinstance(x, ByteBuf) else [bytes(x) if isinstance(x, bytearray) else x]
                        return ByteBuf(parts, frozen=True)
                    raise Unsupported('bytes.join over symbolic chunks with a separator')
            if name in ('append', 'extend', 'update', 'add', 'remove', 'insert', 'pop', 'clear', 'setdefault', 'sort'):
                it.note_mutation(obj, name)
            if name == 'extend' and isinstance(obj, (list, bytearray)):
                if isinstance(args[0], (Opaque, SymRepeat, Sym)):
                    obj.append(SymChunk(args[0])) if isinstance(obj, list) else it._unsup('bytearray.extend(symbolic)')
                    return None
            if name == 'get' and isinstance(obj, dict) and args and is_sym(args[0]):
                r = it.dict_get_sym(obj, args[0])
                if r is _MISSING:
                    return args[1] if len(args) > 1 else None
                return r
            if name in ('items', 'keys', 'values') and isinstance(obj, dict) and not args:
                return getattr(obj, name)()        # the real view: set algebra on keys(), live during iteration
            if any(isinstance(a, (Sym, Opaque, SObj)) for a in args) and not isinstance(obj, (list, dict, set)):
                if isinstance(obj, str):
                    return Opaque('str')
                raise Unsupported('%s.%s on symbolic argument' % (type(obj).__name__, name))
            try:
                return getattr(obj, name)(*args, **kwargs)
            except Exception as e:
                if _has_model(args) or _has_model(list(kwargs.values())):
                    # the host failed on the executor's own model objects: not an exception of the interpreted program
                    raise Unsupported('%s.%s on symbolic values (%s)' % (type(obj).__name__, name, type(e).__name__))
                it.reraise(e)
        return Builtin('%s.%s' % (type(obj).__name__, name), impl)

    def _unsup(self, msg):
        raise Unsupported(msg)

    def note_mutation(self, obj, how):
        h = self.hooks.get('mutation')
        if h:
            h(self, obj, how)

    def sym_method(self, s, name):
        if s.sort == 'str':
            h = self.hooks.get('symstr_method')
            if h:
                r = h(self, s, name)
                if r is not None:
                    return r
            if name in ('lower', 'strip', 'rstrip', 'lstrip', 'upper', 'format', 'encode', 'decode', 'replace'):
                return Builtin('symstr.' + name, lambda it, a, k: Opaque('str'))
            if name in ('startswith', 'endswith'):
                raise Unsupported('symstr.%s' % name)
            raise Unsupported('method %s of symbolic string' % name)
        if s.sort in ('int', 'bool'):
            if name == 'bit_length':
                return Builtin('int.bit_length', lambda it, a, k: self._bit_length(s))
            if name in ('real', 'numerator'):
                return s
            if name == 'to_bytes' and self.hooks.get('int_to_bytes'):
                h = self.hooks['int_to_bytes']
                return Builtin('int.to_bytes', lambda it, a, k: h(it, s, a, k))
            if hasattr(int, name):
                raise Unsupported('int.%s of a symbolic integer' % name)
            py_raise('AttributeError', "'int' object has no attribute '%s'" % name)
        raise Unsupported('attribute of symbolic value')

    def _bit_length(self, s):
        """int.bit_length(): the n with 2**(n-1) <= |x| < 2**n (0 for x == 0), exact for |x| < 2**96 as an ite chain;
        larger magnitudes get an otherwise unconstrained n > 96"""
        if not isinstance(self.dom, IntDom):
            raise Unsupported('bit_length in the bit-vector back end')
        x = self.dom.lift(s).t
        ax = z3.If(x >= 0, x, -x)
        big = z3.Int(self.run.fresh_name('bit_length'))
        self.run.assume(big > 96)
        acc = big
        for k in range(96, -1, -1):
            acc = z3.If(ax < 2 ** k, z3.IntVal(k), acc)
        return Sym('int', acc)

    def dict_get_sym(self, d, key):
        """lookup of a symbolic key in a concrete dict: forks on membership; _MISSING on the absent path"""
        cands = []
        for k in d.keys():
            if key.sort == 'str' and isinstance(k, str):
                cands.append(k)
            elif key.sort in ('int', 'bool') and isinstance(k, int):
                cands.append(k)
        member = False
        for k in cands:
            member = self.or_(member, self.compare(ast.Eq(), key, k))
        if member is False or not self.run.branch(member.t):
            return _MISSING
        # value as an ite chain when all candidate values are ints, else fork per key
        vals = [d[k] for k in cands]
        if all(isinstance(v, int) and not isinstance(v, bool) for v in vals):
            dm = self.dom
            acc = dm.lift(vals[-1])
            for k, v in zip(reversed(cands[:-1]), reversed(vals[:-1])):
                c = self.compare(ast.Eq(), key, k)
                lv = dm.lift(v)
                acc = Sym('int', z3.If(c.t, lv.t, acc.t), max(lv.mag or 0, acc.mag or 0) or None)
            return acc
        h = self.hooks.get('dict_pick')
        if h is not None:
            r = h(self, d, key, cands)
            if r is not None:
                return r
        for k in cands:
            if self.run.branch(self.compare(ast.Eq(), key, k).t):
                return d[k]
        raise Infeasible()

    def concretize(self, v, what, limit=8):
        """a symbolic integer that can take only a few values under the path condition (a width or bit count looked up in a
        table under a symbolic key) is decided by case split: one path per value.  More than `limit` values: not modelled"""
        if not is_sym(v):
            return v
        if v.sort not in ('int', 'bool') or not isinstance(self.dom, IntDom):
            raise Unsupported(what)
        run = self.run
        vals = []
        run.solver.push()
        try:
            while True:
                run.checks += 1
                r = run.solver.check()
                if r == z3.unsat:
                    break
                if r != z3.sat or len(vals) >= limit:
                    raise Unsupported(what)
                c = run.solver.model().eval(v.t, model_completion=True)
                if not z3.is_int_value(c):
                    raise Unsupported(what)
                vals.append(c.as_long())
                run.solver.add(v.t != c)
        finally:
            run.solver.pop()
        vals.sort()
        for c in vals[:-1]:
            if run.branch(v.t == c):
                return c
        if not vals:
            raise Infeasible()
        run.assume(v.t == vals[-1])
        return vals[-1]

    def subscript(self, obj, idx):
        if isinstance(obj, SymDictBase):
            return obj.getitem(self, idx)
        if isinstance(obj, dict):
            if is_sym(idx):
                r = self.dict_get_sym(obj, idx)
                if r is _MISSING:
                    py_raise('KeyError', idx)
                return r
            if isinstance(idx, (SObj, Opaque)):
                if isinstance(idx, Opaque):
                    raise Unsupported('opaque dict key')
                py_raise('KeyError', idx)
            try:
                return obj[idx]
            except KeyError:
                py_raise('KeyError', idx)
            except TypeError as e:
                self.reraise(e)
        if isinstance(obj, (list, tuple, str, bytes, bytearray)):
            if isinstance(idx, slice):
                if any(is_sym(x) for x in (idx.start, idx.stop, idx.step)):
                    return SliceOf(obj, idx.start, idx.stop)
                return obj[idx]
            if is_sym(idx):
                if isinstance(obj, (list, tuple)) and idx.sort in ('int', 'bool'):
                    n = len(obj)
                    for i in range(-n, n):
                        if self.run.branch(self.compare(ast.Eq(), idx, i)):
                            return obj[i]
                    py_raise('IndexError', 'index out of range')
                return Opaque('element')
            if not isinstance(idx, int):
                self.type_error('indices must be integers')
            try:
                return obj[idx]
            except IndexError:
                py_raise('IndexError', 'index out of range')
        if isinstance(obj, Sym) and obj.sort == 'str':
            h = self.hooks.get('symstr_index')
            if h:
                return h(self, obj, idx)
            return Opaque('str')
        if isinstance(obj, ByteSeq) and not is_sym(idx) and not (isinstance(idx, slice) and any(is_sym(x) for x in (idx.start, idx.stop, idx.step))):
            # bytes of known length with symbolic elements: concrete indices and slices are exact
            if isinstance(idx, slice):
                try:
                    return ByteSeq(obj.items[idx])
                except (TypeError, ValueError) as e:
                    self.reraise(e)
            if not isinstance(idx, int):
                self.type_error('indices must be integers')
            try:
                return obj.items[idx]
            except IndexError:
                py_raise('IndexError', 'index out of range')
        if isinstance(obj, (Opaque, ByteBuf, SymBytes)):
            if isinstance(idx, slice):
                return SliceOf(obj, idx.start, idx.stop)
            h = self.hooks.get('opaque_index')
            if h:
                return h(self, obj, idx)
            return Opaque('element')
        if is_sym(obj) or obj is None or isinstance(obj, (int, SObj)):
            self.type_error('object is not subscriptable')
        raise Unsupported('subscript of %r' % type(obj).__name__)

    # ---- expressions ---------------------------------------------------
    def eval(self, n, env):
        m = getattr(self, 'e_' + type(n).__name__, None)
        if m is None:
            raise Unsupported('expression %s' % type(n).__name__)
        return m(n, env)

    def e_Constant(self, n, env):
        return n.value

    def e_Name(self, n, env):
        try:
            return env.lookup(n.id)
        except KeyError:
            if n.id in BUILTINS:
                return BUILTINS[n.id]
            if n.id in EXC:
                return EXC[n.id]
            # distinguish unbound local from unknown global
            py_raise('NameError', "name '%s' is not defined" % n.id)

    def e_BinOp(self, n, env):
        a = self.eval(n.left, env)
        b = self.eval(n.right, env)
        return self.binop(type(n.op), a, b)

    def e_UnaryOp(self, n, env):
        v = self.eval(n.operand, env)
        if isinstance(n.op, ast.Not):
            if is_sym(v):
                b = self.as_bool_sym(v)
                if b is not None:
                    return Sym('bool', z3.Not(b))
            return not self.truth(v)
        if is_sym(v):
            if v.sort == 'str':
                self.type_error('bad operand type for unary op')
            if isinstance(n.op, ast.USub):
                return self.dom.neg(self.dom.lift(v))
            if isinstance(n.op, ast.UAdd):
                return self.dom.lift(v)
            if isinstance(n.op, ast.Invert):
                return self.dom.invert(self.dom.lift(v))
        if isinstance(v, (SObj, Opaque, str, type(None))) and not isinstance(v, bool):
            if isinstance(v, Opaque):
                raise Unsupported('unary op on opaque')
            self.type_error('bad operand type for unary op')
        if isinstance(n.op, ast.USub):
            return -v
        if isinstance(n.op, ast.UAdd):
            return +v
        if isinstance(n.op, ast.Invert):
            return ~v
        raise Unsupported('unary op')

    _PURE = (ast.Compare, ast.Name, ast.Constant, ast.BoolOp, ast.UnaryOp, ast.BinOp, ast.Attribute)

    def _pure_simple(self, n):
        """expression whose evaluation cannot raise or fork for int/bool operands"""
        if isinstance(n, (ast.Name, ast.Constant)):
            return True
        if isinstance(n, ast.Compare):
            return self._pure_simple(n.left) and all(self._pure_simple(c) for c in n.comparators) and \
                all(isinstance(o, tuple(_CMP)) for o in n.ops)
        if isinstance(n, ast.BoolOp):
            return all(self._pure_simple(v) for v in n.values)
        if isinstance(n, ast.UnaryOp):
            return self._pure_simple(n.operand)
        if isinstance(n, ast.BinOp):
            return isinstance(n.op, (ast.Add, ast.Sub, ast.Mult)) and self._pure_simple(n.left) and self._pure_simple(n.right)
        return False

    def e_BoolOp(self, n, env):
        is_and = isinstance(n.op, ast.And)
        vals = n.values
        v = self.eval(vals[0], env)
        for i, nxt in enumerate(vals[1:]):
            if is_sym(v) and v.sort == 'bool' and all(self._pure_simple(x) for x in vals[i + 1:]):
                # merge without forking: the remaining operands are total
                rest = []
                ok = True
                for x in vals[i + 1:]:
                    try:
                        xv = self.eval(x, env)
                    except PyRaise:
                        ok = False
                        break
                    b = self.as_bool_sym(xv) if (is_sym(xv) and xv.sort == 'bool') or isinstance(xv, bool) else None
                    if b is None:
                        ok = False
                        break
                    rest.append(b)
                if ok:
                    return Sym('bool', (z3.And if is_and else z3.Or)(v.t, *rest))
            t = self.truth(v)
            if is_and and not t:
                return v
            if not is_and and t:
                return v
            v = self.eval(nxt, env)
        return v

    def e_Compare(self, n, env):
        left = self.eval(n.left, env)
        acc = True
        for op, cn in zip(n.ops, n.comparators):
            right = self.eval(cn, env)
            r = self.compare(op, left, right)
            if len(n.ops) == 1:
                return r
            if r is False:
                return False
            if isinstance(r, Sym) and not all(self._pure_simple(c) for c in n.comparators):
                if not self.run.branch(r.t):
                    return False
                r = True
            acc = self.and_(acc, r)
            left = right
        return acc

    def e_IfExp(self, n, env):
        c = self.eval(n.test, env)
        if self.truth(c):
            return self.eval(n.body, env)
        return self.eval(n.orelse, env)

    def e_List(self, n, env):
        return self._seq(n.elts, env)

    def e_Tuple(self, n, env):
        return tuple(self._seq(n.elts, env))

    def e_Set(self, n, env):
        return set(self._seq(n.elts, env))

    def _seq(self, elts, env):
        out = []
        for e in elts:
            if isinstance(e, ast.Starred):
                out.extend(self.iterate(self.eval(e.value, env)))
            else:
                out.append(self.eval(e, env))
        return out

    def e_Dict(self, n, env):
        d = {}
        if any(k is None for k in n.keys):
            vals = [self.eval(v, env) for v in n.values]
            if all(k is None for k in n.keys) and any(isinstance(v, SymDictBase) for v in vals):
                # {**a, **b}: a frozen copy in which later operands win
                h = self.hooks.get('dict_merge')
                if h:
                    return h(self, vals)
                raise Unsupported('dict display merging symbolic dicts')
            for k, v, val in zip(n.keys, n.values, vals):
                if k is None:
                    if isinstance(val, SymDictBase):
                        raise Unsupported('dict display merging symbolic dicts')
                    d.update(val)
                else:
                    d[self.eval(k, env)] = val
            return d
        for k, v in zip(n.keys, n.values):
            if k is None:
                d.update(self.eval(v, env))
            else:
                d[self.eval(k, env)] = self.eval(v, env)
        return d

    def e_Attribute(self, n, env):
        return self.getattr(self.eval(n.value, env), n.attr, n)

    def e_Subscript(self, n, env):
        obj = self.eval(n.value, env)
        idx = self.eval(n.slice, env)
        return self.subscript(obj, idx)

    def e_Slice(self, n, env):
        return slice(self.eval(n.lower, env) if n.lower else None,
                     self.eval(n.upper, env) if n.upper else None,
                     self.eval(n.step, env) if n.step else None)

    def e_Lambda(self, n, env):
        return FuncVal(n, env, '<lambda>')

    def e_JoinedStr(self, n, env):
        parts = []
        for v in n.values:
            if isinstance(v, ast.Constant):
                parts.append(v.value)
            else:
                x = self.eval(v.value, env)
                if not isinstance(x, (int, str)):
                    return Opaque('str')
                parts.append(format(x, self.eval(v.format_spec, env) if v.format_spec else ''))
        return ''.join(parts)

    def e_Starred(self, n, env):
        raise Unsupported('starred expression outside call/sequence')

    def _comp(self, gens, env, emit):
        def rec(i, env):
            if i == len(gens):
                yield from emit(env)
                return
            g = gens[i]
            for x in self.iterate(self.eval(g.iter, env)):
                e2 = Env(env)
                self.assign(g.target, x, e2)
                if all(self.truth(self.eval(c, e2)) for c in g.ifs):
                    yield from rec(i + 1, e2)
        return rec(0, env)

    def e_ListComp(self, n, env):
        return list(self._comp(n.generators, env, lambda e: [self.eval(n.elt, e)]))

    def e_SetComp(self, n, env):
        return set(self._comp(n.generators, env, lambda e: [self.eval(n.elt, e)]))

    def e_GeneratorExp(self, n, env):
        return self._comp(n.generators, env, lambda e: [self.eval(n.elt, e)])

    def e_DictComp(self, n, env):
        if len(n.generators) == 1:
            src = self.eval(n.generators[0].iter, env)
            if isinstance(src, SymItems):
                return src.owner.comprehension(self, n, env)
            gens = n.generators
            d = {}
            for x in self.iterate(src):
                e2 = Env(env)
                self.assign(gens[0].target, x, e2)
                if all(self.truth(self.eval(c, e2)) for c in gens[0].ifs):
                    d[self.eval(n.key, e2)] = self.eval(n.value, e2)
            return d
        return dict(self._comp(n.generators, env, lambda e: [(self.eval(n.key, e), self.eval(n.value, e))]))

    def iterate(self, v):
        if isinstance(v, (set, frozenset)) and len(v) > 1:
            # iteration order of a set depends on the hash seed (C16): recorded for the frame obligations
            self.run.notes['set_iterated'] = self.run.notes.get('set_iterated', 0) + 1
        if isinstance(v, (list, tuple, set, frozenset, str, bytes, range, bytearray)):
            return list(v)
        if isinstance(v, dict):
            return list(v.keys())
        if isinstance(v, _DICT_VIEWS):
            return list(v)
        if hasattr(v, '__next__') or isinstance(v, (enumerate, zip, map, filter, reversed)):
            return v
        if isinstance(v, SymDictBase):
            return v.iterate(self)
        if isinstance(v, SymItems):
            return v.owner.iterate_items(self)
        h = self.hooks.get('iterate')
        if h:
            r = h(self, v)
            if r is not None:
                return r
        if is_sym(v) or v is None or isinstance(v, int):
            self.type_error('object is not iterable')
        raise Unsupported('iteration over %r' % (v,))

    # ---- calls ---------------------------------------------------------
    def e_Call(self, n, env):
        # super() needs the enclosing method's class and self
        if isinstance(n.func, ast.Name) and n.func.id == 'super' and not n.args:
            try:
                cls = env.lookup('__class__')
                slf = env.lookup('__self__')
            except KeyError:
                raise Unsupported('super() outside a method')
            return SuperProxy(slf, cls)
        f = self.eval(n.func, env)
        args = []
        for a in n.args:
            if isinstance(a, ast.Starred):
                args.extend(self.iterate(self.eval(a.value, env)))
            else:
                args.append(self.eval(a, env))
        kwargs = {}
        for k in n.keywords:
            if k.arg is None:
                kwargs.update(self.eval(k.value, env))
            else:
                kwargs[k.arg] = self.eval(k.value, env)
        return self.call(f, args, kwargs, node=n)

    def call(self, f, args, kwargs, node=None):
        if isinstance(f, Builtin):
            return f.impl(self, args, kwargs)
        if isinstance(f, BoundMethod):
            return self.call_func(f.func, [f.obj] + list(args), kwargs, self_obj=f.obj)
        if isinstance(f, FuncVal):
            return self.call_func(f, args, kwargs)
        if isinstance(f, Partial):
            kw = dict(f.kwargs)
            kw.update(kwargs)
            return self.call(f.func, list(f.args) + list(args), kw)
        if isinstance(f, ClassVal):
            return self.instantiate(f, args, kwargs)
        if isinstance(f, Opaque):
            h = self.hooks.get('opaque_call')
            if h:
                return h(self, f, args, kwargs)
            raise Unsupported('call of %r' % f)
        if isinstance(f, (Sym, int, str, SObj, tuple, list, dict, bytes)) or f is None:
            self.type_error('object is not callable')
        raise Unsupported('call of %r' % (f,))

    def instantiate(self, cls, args, kwargs):
        if cls.builtin:
            if cls.issub(EXC['BaseException']):
                return SObj(cls, {'args': tuple(args)})
            raise Unsupported('instantiate builtin class %s' % cls.name)
        obj = SObj(cls, {})
        self.run.notes.setdefault('created', set()).add(id(obj))
        c, init = cls.find('__init__')
        if init is None or not isinstance(init, FuncVal):
            self._base_init(obj, args)
            return obj
        self.call_func(init, [obj] + list(args), kwargs, self_obj=obj)
        return obj

    def call_func(self, f, args, kwargs, self_obj=None):
        c = self.contracts.get(f.qualname)
        if c is not None:
            return c(self, f, args, kwargs)
        if f.unknown_decorator:
            raise Unsupported('function %s under decorator %s' % (f.qualname, f.unknown_decorator))
        return self.inline(f, args, kwargs, self_obj)

    def inline(self, f, args, kwargs, self_obj=None):
        self.depth += 1
        if self.depth > 60:
            raise Unsupported('recursion depth')
        try:
            env = Env(f.env)
            self.bind(f, args, kwargs, env)
            if f.cls is not None:
                env.vars['__class__'] = f.cls
                env.vars['__self__'] = args[0] if args else None
            if isinstance(f.node, ast.Lambda):
                return self.eval(f.node.body, env)
            try:
                self.exec_block(f.node.body, env)
            except _Return as r:
                return r.value
            return None
        finally:
            self.depth -= 1

    def bind(self, f, args, kwargs, env):
        a = f.node.args
        pos = [x.arg for x in getattr(a, 'posonlyargs', [])] + [x.arg for x in a.args]
        defaults = a.defaults
        kwargs = dict(kwargs)
        n = len(pos)
        if len(args) > n and a.vararg is None:
            py_raise('TypeError', '%s() takes %d positional arguments but %d were given' % (f.name, n, len(args)))
        for i, name in enumerate(pos):
            if i < len(args):
                if name in kwargs:
                    py_raise('TypeError', "%s() got multiple values for argument '%s'" % (f.name, name))
                env.vars[name] = args[i]
            elif name in kwargs:
                env.vars[name] = kwargs.pop(name)
            else:
                di = i - (n - len(defaults))
                if di >= 0:
                    env.vars[name] = self.eval(defaults[di], f.env)
                else:
                    py_raise('TypeError', "%s() missing required positional argument: '%s'" % (f.name, name))
        if a.vararg is not None:
            env.vars[a.vararg.arg] = tuple(args[n:])
        for ka, kd in zip(a.kwonlyargs, a.kw_defaults):
            if ka.arg in kwargs:
                env.vars[ka.arg] = kwargs.pop(ka.arg)
            elif kd is not None:
                env.vars[ka.arg] = self.eval(kd, f.env)
            else:
                py_raise('TypeError', "%s() missing required keyword-only argument: '%s'" % (f.name, ka.arg))
        if a.kwarg is not None:
            env.vars[a.kwarg.arg] = kwargs
        elif kwargs:
            py_raise('TypeError', "%s() got an unexpected keyword argument '%s'" % (f.name, next(iter(kwargs))))

    # ---- statements ----------------------------------------------------
    def exec_block(self, stmts, env):
        for s in stmts:
            self.exec(s, env)

    def exec(self, s, env):
        m = getattr(self, 's_' + type(s).__name__, None)
        if m is None:
            raise Unsupported('statement %s' % type(s).__name__)
        h = self.hooks.get('stmt')
        if h:
            h(self, s, env)
        return m(s, env)

    def s_Expr(self, s, env):
        self.eval(s.value, env)

    def s_Pass(self, s, env):
        pass

    def s_Global(self, s, env):
        raise Unsupported('global statement')

    def s_Nonlocal(self, s, env):
        raise Unsupported('nonlocal statement')

    def s_Return(self, s, env):
        raise _Return(self.eval(s.value, env) if s.value is not None else None)

    def s_Break(self, s, env):
        raise _Break()

    def s_Continue(self, s, env):
        raise _Continue()

    def s_Assign(self, s, env):
        v = self.eval(s.value, env)
        for t in s.targets:
            self.assign(t, v, env)

    def s_AnnAssign(self, s, env):
        if s.value is not None:
            self.assign(s.target, self.eval(s.value, env), env)

    def s_AugAssign(self, s, env):
        if isinstance(s.target, ast.Name):
            cur = self.e_Name(ast.Name(id=s.target.id, ctx=ast.Load()), env)
        elif isinstance(s.target, ast.Attribute):
            obj = self.eval(s.target.value, env)
            cur = self.getattr(obj, s.target.attr)
        elif isinstance(s.target, ast.Subscript):
            obj = self.eval(s.target.value, env)
            idx = self.eval(s.target.slice, env)
            cur = self.subscript(obj, idx)
        else:
            raise Unsupported('augassign target')
        rhs = self.eval(s.value, env)
        if isinstance(cur, ByteBuf) and isinstance(s.op, ast.Add) and not cur.frozen:
            self.call(self.getattr(cur, 'extend'), [rhs], {})
            new = cur
        elif isinstance(cur, (list, bytearray)) and isinstance(s.op, ast.Add):
            # in-place extension keeps identity
            self.note_mutation(cur, '+=')
            cur.extend(self.iterate(rhs))
            new = cur
        elif isinstance(cur, (bytes, SymBytes)) and isinstance(s.op, ast.Add) and isinstance(rhs, (bytes, SymBytes, SymRepeat)):
            new = SymBytes.concat(cur, rhs)
        else:
            new = self.binop(type(s.op), cur, rhs)
        if isinstance(s.target, ast.Name):
            self.assign(s.target, new, env)
        elif isinstance(s.target, ast.Attribute):
            self.setattr(obj, s.target.attr, new)
        else:
            self.setitem(obj, idx, new)

    def assign(self, t, v, env):
        if isinstance(t, ast.Name):
            env.vars[t.id] = v
        elif isinstance(t, (ast.Tuple, ast.List)):
            vals = self.iterate(v)
            if not isinstance(vals, list):
                vals = list(vals)
            star = [i for i, e in enumerate(t.elts) if isinstance(e, ast.Starred)]
            if not star:
                if len(vals) != len(t.elts):
                    py_raise('ValueError', 'not enough/too many values to unpack (expected %d, got %d)' % (len(t.elts), len(vals)))
                for e, x in zip(t.elts, vals):
                    self.assign(e, x, env)
            else:
                i = star[0]
                after = len(t.elts) - i - 1
                if len(vals) < len(t.elts) - 1:
                    py_raise('ValueError', 'not enough values to unpack')
                for e, x in zip(t.elts[:i], vals[:i]):
                    self.assign(e, x, env)
                self.assign(t.elts[i].value, list(vals[i:len(vals) - after]), env)
                for e, x in zip(t.elts[i + 1:], vals[len(vals) - after:]):
                    self.assign(e, x, env)
        elif isinstance(t, ast.Attribute):
            self.setattr(self.eval(t.value, env), t.attr, v)
        elif isinstance(t, ast.Subscript):
            self.setitem(self.eval(t.value, env), self.eval(t.slice, env), v)
        elif isinstance(t, ast.Starred):
            raise Unsupported('starred assignment target')
        else:
            raise Unsupported('assignment target %s' % type(t).__name__)

    def setattr(self, obj, name, v):
        if isinstance(obj, SObj):
            self.note_mutation(obj, 'setattr:' + name)
            obj.fields[name] = v
            return
        if isinstance(obj, ModuleStub):
            self.note_mutation(obj, 'setattr:' + name)
            obj.attrs[name] = v
            return
        if isinstance(obj, FuncVal):
            if getattr(obj, 'attrs', None) is None:
                obj.attrs = {}
            obj.attrs[name] = v
            return
        if isinstance(obj, Opaque):
            h = self.hooks.get('opaque_setattr')
            if h:
                return h(self, obj, name, v)
        raise Unsupported('setattr on %r' % type(obj).__name__)

    def setitem(self, obj, idx, v):
        if isinstance(obj, SymDictBase):
            return obj.setitem(self, idx, v)
        if isinstance(obj, dict):
            self.note_mutation(obj, 'setitem')
            if is_sym(idx) or isinstance(idx, Opaque):
                # symbolic key into a concrete dict: keep as a distinct entry keyed by the term
                obj[idx] = v
                return
            obj[idx] = v
            return
        if isinstance(obj, list):
            self.note_mutation(obj, 'setitem')
            if is_sym(idx):
                raise Unsupported('list store at symbolic index')
            try:
                obj[idx] = v
            except IndexError:
                py_raise('IndexError', 'list assignment index out of range')
            return
        raise Unsupported('setitem on %r' % type(obj).__name__)

    def s_If(self, s, env):
        if self.truth(self.eval(s.test, env)):
            self.exec_block(s.body, env)
        else:
            self.exec_block(s.orelse, env)

    def s_For(self, s, env):
        itv = self.eval(s.iter, env)
        h = self.hooks.get('for')
        if h:
            r = h(self, s, env, itv)
            if r is not None:
                return
        it = self.iterate(itv)
        broke = False
        for x in it:
            self.assign(s.target, x, env)
            try:
                self.exec_block(s.body, env)
            except _Break:
                broke = True
                break
            except _Continue:
                continue
        if not broke:
            self.exec_block(s.orelse, env)

    def s_While(self, s, env):
        h = self.hooks.get('while')
        if h:
            r = h(self, s, env)
            if r is not None:
                return
        n = 0
        while self.truth(self.eval(s.test, env)):
            n += 1
            if n > 10000:
                raise Unsupported('while loop bound')
            try:
                self.exec_block(s.body, env)
            except _Break:
                return
            except _Continue:
                continue
        self.exec_block(s.orelse, env)

    def s_Raise(self, s, env):
        if s.exc is None:
            cur = env_lookup_default(env, '__current_exc__')
            if cur is None:
                py_raise('RuntimeError', 'No active exception to reraise')
            raise PyRaise(cur)
        e = self.eval(s.exc, env)
        if isinstance(e, ClassVal):
            e = self.instantiate(e, [], {})
        if not isinstance(e, SObj) or not e.cls.issub(EXC['BaseException']):
            self.type_error('exceptions must derive from BaseException')
        raise PyRaise(e)

    def s_Try(self, s, env):
        try:
            try:
                self.exec_block(s.body, env)
            except PyRaise as pr:
                exc = pr.exc
                for h in s.handlers:
                    if h.type is None:
                        match = True
                    else:
                        t = self.eval(h.type, env)
                        ts = t if isinstance(t, tuple) else (t,)
                        match = any(isinstance(c, ClassVal) and exc.cls.issub(c) for c in ts)
                    if match:
                        if h.name:
                            env.vars[h.name] = exc
                        prev = env.vars.get('__current_exc__')
                        env.vars['__current_exc__'] = exc
                        try:
                            self.exec_block(h.body, env)
                        finally:
                            env.vars['__current_exc__'] = prev
                        break
                else:
                    raise
            else:
                self.exec_block(s.orelse, env)
        finally:
            if s.finalbody:
                self.exec_block(s.finalbody, env)

    def s_Assert(self, s, env):
        if not self.truth(self.eval(s.test, env)):
            py_raise('AssertionError')

    def s_With(self, s, env):
        for item in s.items:
            v = self.eval(item.context_expr, env)
            if item.optional_vars is not None:
                self.assign(item.optional_vars, v, env)
        try:
            self.exec_block(s.body, env)
        finally:
            for item in s.items:
                h = self.hooks.get('with_exit')
                if h:
                    h(self, item, env)

    @staticmethod
    def _decorate(fv, node):
        """staticmethod / classmethod / property / abc.abstractmethod are modelled; a function under any other decorator
        is not the function its body describes: calling it is outside the subset"""
        for d in getattr(node, 'decorator_list', []):
            name = ast.unparse(d)
            if name == 'staticmethod':
                fv.kind = 'static'
            elif name == 'classmethod':
                fv.kind = 'class'
            elif name == 'property':
                fv.kind = 'property'
            elif name in ('abc.abstractmethod', 'abstractmethod'):
                pass
            else:
                fv.unknown_decorator = name
        return fv

    def s_FunctionDef(self, s, env):
        q = env.vars.get('__qualname__', '')
        env.vars[s.name] = self._decorate(FuncVal(s, env, (q + '.' if q else '') + s.name), s)

    def s_ClassDef(self, s, env):
        bases = []
        for b in s.bases:
            bv = self.eval(b, env)
            if not isinstance(bv, ClassVal):
                raise Unsupported('base class %r' % (bv,))
            bases.append(bv)
        if not bases:
            bases = [EXC['object']]
        cls = ClassVal(s.name, bases, {})
        q = env.vars.get('__qualname__', '')
        cenv = Env(env, {'__qualname__': (q + '.' if q else '') + s.name})
        for st in s.body:
            if isinstance(st, ast.FunctionDef):
                cls.methods[st.name] = self._decorate(FuncVal(st, env, cenv.vars['__qualname__'] + '.' + st.name, cls=cls), st)
            elif isinstance(st, ast.Expr) and isinstance(st.value, ast.Constant):
                pass
            elif isinstance(st, ast.Pass):
                pass
            elif isinstance(st, ast.Assign):
                v = self.eval(st.value, cenv)
                for t in st.targets:
                    cls.methods[t.id] = v
            else:
                raise Unsupported('class body statement %s' % type(st).__name__)
        env.vars[s.name] = cls

    def s_Import(self, s, env):
        for a in s.names:
            top = a.name.split('.')[0]
            env.vars[a.asname or top] = get_module_stub(top if not a.asname else a.name)

    def s_ImportFrom(self, s, env):
        m = get_module_stub(s.module)
        for a in s.names:
            if a.name not in m.attrs and getattr(m, 'lazy', False) and a.name != '*':
                lazy_module_attr(m, a.name)
            if a.name not in m.attrs:
                raise Unsupported('from %s import %s' % (s.module, a.name))
            env.vars[a.asname or a.name] = m.attrs[a.name]


def _has_model(vals, depth=0):
    for v in vals:
        if isinstance(v, (Sym, Opaque, SObj, SymRepeat, SymBytes, ByteBuf, SymDictBase)):
            return True
        if depth < 3 and isinstance(v, (list, tuple, set)) and _has_model(list(v), depth + 1):
            return True
        if depth < 3 and isinstance(v, dict) and _has_model(list(v.values()), depth + 1):
            return True
    return False


def env_lookup_default(env, name, default=None):
    try:
        return env.lookup(name)
    except KeyError:
        return default


_MISSING = object()


# --------------------------------------------------------------------------
# symbolic containers

class SymDictBase:
    def __deepcopy__(self, memo):
        return self


class SymItems:
    def __init__(self, owner):
        self.owner = owner


class SymRepeat:
    """`seq * n` with symbolic n (e.g. b'\\x00' * padding)"""

    def __init__(self, unit, count):
        self.unit = unit
        self.count = count

    def __deepcopy__(self, memo):
        return self


class SymChunk:
    def __init__(self, v):
        self.v = v


class SymBytes:
    """byte string as a list of parts: concrete bytes / SymRepeat / Opaque"""

    def __init__(self, parts):
        self.parts = parts

    def __deepcopy__(self, memo):
        return self

    @staticmethod
    def concat(a, b):
        pa = a.parts if isinstance(a, SymBytes) else [a]
        pb = b.parts if isinstance(b, SymBytes) else [b]
        return SymBytes(pa + pb)


class ByteBuf:
    """bytearray / bytes built from parts (concrete bytes or opaque values with a `.length`)"""

    def __init__(self, parts=None, frozen=False):
        self.parts = list(parts or [])
        self.frozen = frozen

    def __deepcopy__(self, memo):
        return self


class ByteSeq(Opaque):
    """a bytes object whose individual bytes are symbolic integers 0..255"""

    def __init__(self, items):
        super().__init__('bytes')
        self.items = list(items)
        self.length = len(self.items)


class Ratio(Opaque):
    """a / b (true division) kept symbolic"""

    def __init__(self, num, den):
        super().__init__('float')
        self.num, self.den = num, den


class SliceOf(Opaque):
    def __init__(self, base, start, stop):
        super().__init__('slice')
        self.base, self.start, self.stop = base, start, stop


class CUInt:
    def __init__(self, value):
        self.value = value


# --------------------------------------------------------------------------
# builtins

def _b_len(it, args, kw):
    (v,) = args
    if isinstance(v, SObj):
        c, m = v.cls.find('__len__')
        if m is None:
            it.type_error('object has no len()')
        return it.call(BoundMethod(v, m), [], {})
    if isinstance(v, SymRepeat):
        n = len(v.unit)
        c = v.count
        d = it.dom
        neg = it.compare(ast.Lt(), c, 0)
        if it.truth(neg):
            return 0
        return it.binop(ast.Mult, c, n)
    if isinstance(v, ByteBuf):
        tot = 0
        for p in v.parts:
            tot = it.binop(ast.Add, tot, _b_len(it, [p], {}))
        return tot
    if isinstance(v, SymBytes):
        tot = 0
        for p in v.parts:
            tot = it.binop(ast.Add, tot, _b_len(it, [p], {})) if not (isinstance(tot, int) and not is_sym(_b_len)) else tot
        return tot
    if isinstance(v, (Sym, Opaque)):
        h = it.hooks.get('len')
        if h:
            return h(it, v)
        if isinstance(v, Sym) and v.sort != 'str':
            it.type_error('object has no len()')
        raise Unsupported('len of symbolic value')
    if isinstance(v, SymDictBase):
        raise Unsupported('len of symbolic dict')
    if v is None or isinstance(v, (int, bool)):
        it.type_error('object has no len()')
    return len(v)


def _b_isinstance(it, args, kw):
    v, c = args
    cs = c if isinstance(c, tuple) else (c,)
    for k in cs:
        if isinstance(k, ClassVal):
            if isinstance(v, SObj) and v.cls.issub(k):
                return True
        elif isinstance(k, Builtin) and k.name in ('int', 'str', 'bool', 'bytes', 'list', 'dict', 'tuple'):
            if type_name(v) == k.name or (k.name == 'int' and type_name(v) == 'bool'):
                return True
        else:
            raise Unsupported('isinstance against %r' % (k,))
    return False


def type_name(v):
    if isinstance(v, Sym):
        return v.sort
    if isinstance(v, SObj):
        return v.cls
    if isinstance(v, Opaque):
        if v.tag in ('str', 'bytes', 'int'):
            return v.tag
        raise Unsupported('type of %r' % v)
    if isinstance(v, (SymBytes, SymRepeat)):
        return 'bytes'
    return type(v).__name__


def _b_type(it, args, kw):
    (v,) = args
    t = type_name(v)
    if isinstance(t, ClassVal):
        return t
    if t not in BUILTINS:
        BUILTINS.setdefault('type:' + t, Builtin('type:' + t, lambda it, a, k: it._unsup('constructor of type %s' % t)))
        return BUILTINS['type:' + t]
    return BUILTINS[t]


def _b_int(it, args, kw):
    if not args:
        return 0
    v = args[0]
    base = kw.get('base', args[1] if len(args) > 1 else None)
    if isinstance(v, Sym):
        if v.sort in ('int', 'bool'):
            if base is not None:
                py_raise('TypeError', "int() can't convert non-string with explicit base")
            return it.dom.lift(v)
        h = it.hooks.get('int_of_str')
        if h:
            return h(it, v, base)
        raise Unsupported('int() of symbolic string')
    if isinstance(v, (SObj,)) or v is None or isinstance(v, (list, tuple, dict)):
        py_raise('TypeError', 'int() argument must be a string, a bytes-like object or a real number')
    if isinstance(v, Opaque):
        raise Unsupported('int() of opaque')
    try:
        return int(v) if base is None else int(v, base)
    except Exception as e:
        it.reraise(e)


def _b_str(it, args, kw):
    if not args:
        return ''
    v = args[0]
    if isinstance(v, (int, str, bool, float, type(None))):
        return str(v)
    if isinstance(v, Sym) and v.sort == 'str':
        return v
    h = it.hooks.get('str_of')
    if h:
        r = h(it, v)
        if r is not None:
            return r
    return Opaque('str')


def _b_all(it, args, kw):
    for v in it.iterate(args[0]):
        if not it.truth(v):
            return False
    return True


def _b_any(it, args, kw):
    for v in it.iterate(args[0]):
        if it.truth(v):
            return True
    return False


def _b_getattr(it, args, kw):
    obj, name = args[0], args[1]
    if not isinstance(name, str):
        raise Unsupported('getattr with symbolic name')
    if len(args) == 3:
        try:
            return it.getattr(obj, name)
        except PyRaise as e:
            if e.exc.cls.issub(EXC['AttributeError']):
                return args[2]
            raise
    return it.getattr(obj, name)


def _b_hasattr(it, args, kw):
    obj, name = args
    try:
        it.getattr(obj, name)
        return True
    except PyRaise as e:
        if e.exc.cls.issub(EXC['AttributeError']):
            return False
        raise


def _b_vars(it, args, kw):
    (obj,) = args
    if not isinstance(obj, SObj):
        raise Unsupported('vars() of %r' % (obj,))
    return obj.fields


def _b_range(it, args, kw):
    big = not any(is_sym(a) for a in args) and it.hooks.get('range') is not None and all(isinstance(a, int) for a in args) and len(range(*args)) > 3
    if any(is_sym(a) for a in args) or big:
        h = it.hooks.get('range')
        if h:
            return h(it, args)
        raise Unsupported('range over symbolic bound')
    return range(*args)


def _b_enumerate(it, args, kw):
    h = it.hooks.get('enumerate')
    if h:
        r = h(it, args, kw)
        if r is not None:
            return r
    start = kw.get('start', args[1] if len(args) > 1 else 0)
    return [(i, x) for i, x in enumerate(it.iterate(args[0]), start)]


def _b_print(it, args, kw):
    it.run.effects.append(('print', tuple(args)))
    return None


def _b_ord(it, args, kw):
    (c,) = args
    if isinstance(c, str):
        try:
            return ord(c)
        except TypeError as e:
            it.reraise(e)
    h = it.hooks.get('ord')
    if h:
        return h(it, c)
    raise Unsupported('ord of symbolic')


def _b_set(it, args, kw):
    if not args:
        return set()
    return set(it.iterate(args[0]))


def _b_list(it, args, kw):
    if not args:
        return []
    return list(it.iterate(args[0]))


def _b_tuple(it, args, kw):
    if not args:
        return ()
    return tuple(it.iterate(args[0]))


def _b_dict(it, args, kw):
    d = {}
    if args:
        if isinstance(args[0], dict):
            d.update(args[0])
        else:
            for k, v in it.iterate(args[0]):
                d[k] = v
    d.update(kw)
    return d


def _b_bytes(it, args, kw):
    if not args:
        return b''
    v = args[0]
    if isinstance(v, (bytes, bytearray)):
        return bytes(v)
    if isinstance(v, (SymBytes, Opaque)):
        return v
    if isinstance(v, ByteBuf):
        return ByteBuf(v.parts, frozen=True)
    if isinstance(v, int) and not isinstance(v, bool):
        if v < 0:
            py_raise('ValueError', 'negative count')
        return bytes(v)
    if isinstance(v, Sym) and v.sort == 'int':
        if it.truth(it.compare(ast.Lt(), v, 0)):
            py_raise('ValueError', 'negative count')
        return SymRepeat(b'\x00', v)
    if isinstance(v, (list, tuple)) and all(isinstance(x, int) for x in v):
        return bytes(v)
    raise Unsupported('bytes(%r)' % (v,))


def _b_bytearray(it, args, kw):
    if not args:
        return ByteBuf()
    if isinstance(args[0], (bytes, bytearray)):
        return ByteBuf([bytes(args[0])])
    raise Unsupported('bytearray(%r)' % (args[0],))


def _b_minmax(fn):
    def f(it, args, kw):
        vals = list(it.iterate(args[0])) if len(args) == 1 else list(args)
        if not any(is_sym(v) for v in vals):
            return fn(vals)
        acc = vals[0]
        for v in vals[1:]:
            c = it.compare(ast.Lt() if fn is min else ast.Gt(), v, acc)
            if it.truth(c):
                acc = v
        return acc
    return f


def _b_abs(it, args, kw):
    (v,) = args
    if is_sym(v):
        if it.truth(it.compare(ast.Lt(), v, 0)):
            return it.dom.neg(it.dom.lift(v))
        return v
    return abs(v)


def _b_divmod(it, args, kw):
    a, b = args
    return (it.binop(ast.FloorDiv, a, b), it.binop(ast.Mod, a, b))


def _b_iter(it, args, kw):
    v = it.iterate(args[0])
    return iter(v) if not hasattr(v, '__next__') else v


def _b_next(it, args, kw):
    g = args[0]
    if not hasattr(g, '__next__'):
        it.type_error('object is not an iterator')
    try:
        return next(g)
    except StopIteration:
        if len(args) > 1:
            return args[1]
        py_raise('StopIteration')


def _b_bool(it, args, kw):
    if not args:
        return False
    return it.truth(args[0])


def _b_callable(it, args, kw):
    (v,) = args
    if isinstance(v, (FuncVal, BoundMethod, Builtin, Partial, ClassVal)):
        return True
    if isinstance(v, SObj):
        return v.cls.find('__call__')[1] is not None
    if isinstance(v, Opaque):
        raise Unsupported('callable() of an opaque value')
    return False


def _plain(xs):
    return all(isinstance(x, (int, str, bytes, bool, float, type(None))) or (isinstance(x, tuple) and _plain(x)) for x in xs)


def _b_zip(it, args, kw):
    return list(zip(*[list(it.iterate(a)) for a in args]))


def _b_reversed(it, args, kw):
    return list(reversed(list(it.iterate(args[0]))))


def _b_sorted(it, args, kw):
    xs = list(it.iterate(args[0]))
    if kw or not _plain(xs):
        raise Unsupported('sorted() of symbolic values or with a key')
    try:
        return sorted(xs)
    except Exception as e:
        it.reraise(e)


def _b_sum(it, args, kw):
    acc = args[1] if len(args) > 1 else 0
    for x in it.iterate(args[0]):
        acc = it.binop(ast.Add, acc, x)
    return acc


def _b_map(it, args, kw):
    f = args[0]
    return [it.call(f, list(xs), {}) for xs in zip(*[list(it.iterate(a)) for a in args[1:]])]


def _b_filter(it, args, kw):
    f, xs = args
    return [x for x in it.iterate(xs) if it.truth(x if f is None else it.call(f, [x], {}))]


def _b_frozenset(it, args, kw):
    xs = list(it.iterate(args[0])) if args else []
    if not _plain(xs):
        raise Unsupported('frozenset of symbolic values')
    return frozenset(xs)


def _b_issubclass(it, args, kw):
    c, b = args
    bs = b if isinstance(b, tuple) else (b,)
    if isinstance(c, ClassVal) and all(isinstance(x, ClassVal) for x in bs):
        return any(c.issub(x) for x in bs)
    raise Unsupported('issubclass on non-class values')


def _b_repr(it, args, kw):
    (v,) = args
    if _plain([v]):
        return repr(v)
    return Opaque('str')


def _b_chr(it, args, kw):
    (v,) = args
    if isinstance(v, int):
        try:
            return chr(v)
        except Exception as e:
            it.reraise(e)
    raise Unsupported('chr of a symbolic value')


def _b_hexlike(f):
    def impl(it, args, kw):
        (v,) = args
        if isinstance(v, int):
            return f(v)
        if is_sym(v) and v.sort in ('int', 'bool'):
            return Opaque('str')
        it.type_error('an integer is required')
    return impl


def _b_c_uint32(it, args, kw):
    (v,) = args
    if is_sym(v):
        if v.sort == 'str':
            py_raise('TypeError', 'an integer is required')
        return CUInt(it.dom.c_uint32(it.dom.lift(v)))
    if not isinstance(v, int):
        py_raise('TypeError', 'an integer is required')
    return CUInt(v % 2 ** 32)


def _b_c_int32(it, args, kw):
    (v,) = args
    if is_sym(v):
        if v.sort == 'str':
            py_raise('TypeError', 'an integer is required')
        return CUInt(it.dom.c_int32(it.dom.lift(v)))
    if not isinstance(v, int):
        py_raise('TypeError', 'an integer is required')
    return CUInt(((v + 2 ** 31) % 2 ** 32) - 2 ** 31)


def _b_partial(it, args, kw):
    return Partial(args[0], list(args[1:]), dict(kw))


def _b_deepcopy(it, args, kw):
    (v,) = args
    return _deepcopy_val(v)


def _deepcopy_val(v):
    if isinstance(v, dict):
        return {k: _deepcopy_val(x) for k, x in v.items()}
    if isinstance(v, list):
        return [_deepcopy_val(x) for x in v]
    if isinstance(v, tuple):
        return tuple(_deepcopy_val(x) for x in v)
    if isinstance(v, SObj):
        o = SObj(v.cls, {k: _deepcopy_val(x) for k, x in v.fields.items()})
        o.copied_from = getattr(v, 'copied_from', v)
        return o
    return v


def _b_chainmap(it, args, kw):
    return ChainMapVal(list(args))


class ChainMapVal(SymDictBase):
    def __init__(self, maps):
        self.maps = maps

    def contains(self, it, x):
        acc = False
        for m in self.maps:
            acc = it.or_(acc, it.contains(m, x))
        return acc

    def getitem(self, it, k):
        for m in self.maps:
            if it.truth(it.contains(m, k)):
                return it.subscript(m, k)
        py_raise('KeyError', k)

    def setitem(self, it, k, v):
        it.setitem(self.maps[0], k, v)

    def getattr(self, it, name):
        if name == 'maps':
            return self.maps
        if name == 'items':
            return Builtin('ChainMap.items', lambda it2, a, k: SymItems(self))
        if name == 'update':
            # ChainMap writes go to maps[0]
            return it.getattr(self.maps[0], 'update')
        raise Unsupported('ChainMap.%s' % name)

    def comprehension(self, it, node, env):
        # iterating a ChainMap visits every key of every map: evaluate the comprehension on the first symbolic map's model
        for m in self.maps:
            if isinstance(m, SymDictBase) and hasattr(m, 'comprehension'):
                return m.comprehension(it, node, env)
        raise Unsupported('comprehension over ChainMap')

    def iterate(self, it):
        raise Unsupported('iteration over ChainMap')


BUILTINS = {}
_DICT_VIEWS = (type({}.keys()), type({}.items()), type({}.values()))


def _reg(name, impl):
    BUILTINS[name] = Builtin(name, impl)


for _n, _f in [('len', _b_len), ('isinstance', _b_isinstance), ('type', _b_type), ('int', _b_int), ('str', _b_str),
               ('all', _b_all), ('any', _b_any), ('getattr', _b_getattr), ('hasattr', _b_hasattr), ('vars', _b_vars),
               ('range', _b_range), ('enumerate', _b_enumerate), ('print', _b_print), ('ord', _b_ord),
               ('set', _b_set), ('list', _b_list), ('tuple', _b_tuple), ('dict', _b_dict), ('bytes', _b_bytes),
               ('bytearray', _b_bytearray), ('min', _b_minmax(min)), ('max', _b_minmax(max)), ('abs', _b_abs),
               ('divmod', _b_divmod), ('bool', _b_bool), ('iter', _b_iter), ('next', _b_next), ('callable', _b_callable),
               ('zip', _b_zip), ('reversed', _b_reversed), ('sorted', _b_sorted), ('sum', _b_sum), ('map', _b_map), ('filter', _b_filter),
               ('frozenset', _b_frozenset), ('issubclass', _b_issubclass), ('repr', _b_repr), ('chr', _b_chr),
               ('hex', _b_hexlike(hex)), ('bin', _b_hexlike(bin)), ('oct', _b_hexlike(oct))]:
    _reg(_n, _f)
BUILTINS['object'] = EXC['object']
BUILTINS['True'] = True
BUILTINS['False'] = False
BUILTINS['None'] = None


def _unsupported_builtin(name):
    def f(it, args, kw):
        h = it.hooks.get('external')
        if h:
            r = h(it, name, args, kw)
            if r is not NotImplemented:
                return r
        raise Unsupported('external call %s' % name)
    return Builtin(name, f)


for _n in ['open', 'eval', 'exec', 'input', 'id', 'hash', 'sorted', 'zip', 'map', 'filter', 'repr', 'format',
           'chr', 'hex', 'bin', 'oct', 'round', 'sum', 'float', 'iter', 'next', 'reversed', 'callable', 'setattr',
           'delattr', 'globals', 'locals', 'compile', '__import__', 'frozenset', 'pow', 'isinstance_']:
    if _n not in BUILTINS:
        BUILTINS[_n] = _unsupported_builtin(_n)


def _concrete_or_external(qual, fn):
    """library function: evaluated by the host when every argument is concrete, else handed to the external hook"""
    def f(it, args, kw):
        h = it.hooks.get('external')
        if h:
            r = h(it, qual, args, kw)
            if r is not NotImplemented:
                return r
        flat = list(args) + list(kw.values())
        if fn is not None and all(isinstance(a, (int, str, bytes, bool, float, type(None), list, tuple)) for a in flat) \
                and not any(isinstance(x, (Sym, Opaque, SObj)) for a in flat if isinstance(a, (list, tuple)) for x in a):
            try:
                return fn(*args, **kw)
            except Exception as e:
                it.reraise(e)
        raise Unsupported('external call %s on symbolic arguments' % qual)
    return Builtin(qual, f)


_MODULES = {}


def get_module_stub(name):
    if name in _MODULES:
        return _MODULES[name]
    if name.split('.')[0] in getattr(sys, 'stdlib_module_names', ()):
        # a standard-library module without a model: importing it is harmless, every function of it is outside the subset
        # (a call is handed to the external hook, else Unsupported = undecided on the paths that reach the call)
        m = ModuleStub(name, {})
        m.lazy = True
        _MODULES[name] = m
        return m
    raise Unsupported('import of module %s' % name)


def lazy_module_attr(m, name):
    if name.startswith('__'):
        raise Unsupported('module attribute %s.%s' % (m.name, name))
    m.attrs[name] = _unsupported_builtin('%s.%s' % (m.name, name))
    return m.attrs[name]


def _init_modules():
    logger = Opaque('logger')
    _MODULES['logging'] = ModuleStub('logging', {
        'getLogger': Builtin('logging.getLogger', lambda it, a, k: ModuleStub('logger', {
            'addHandler': Builtin('log.addHandler', lambda it, a, k: None),
            'info': Builtin('log.info', lambda it, a, k: None),
            'debug': Builtin('log.debug', lambda it, a, k: None),
            'warning': Builtin('log.warning', lambda it, a, k: None),
            'error': Builtin('log.error', lambda it, a, k: None),
        })),
        'NullHandler': Builtin('logging.NullHandler', lambda it, a, k: Opaque('handler')),
        'basicConfig': _unsupported_builtin('logging.basicConfig'),
        'INFO': 20,
    })
    _MODULES['abc'] = ModuleStub('abc', {
        'ABC': ABC_CLASS,
        'abstractmethod': Builtin('abc.abstractmethod', lambda it, a, k: a[0]),
    })
    _MODULES['copy'] = ModuleStub('copy', {'deepcopy': Builtin('copy.deepcopy', _b_deepcopy),
                                           'copy': Builtin('copy.copy', lambda it, a, k: _copy.copy(a[0]))})
    _MODULES['collections'] = ModuleStub('collections', {'ChainMap': Builtin('ChainMap', _b_chainmap)})
    _MODULES['ctypes'] = ModuleStub('ctypes', {'c_uint32': Builtin('c_uint32', _b_c_uint32),
                                               'c_int32': Builtin('c_int32', _b_c_int32)})
    _MODULES['functools'] = ModuleStub('functools', {'partial': Builtin('partial', _b_partial),
                                                     # importable; a function under one of these is outside the subset (s_FunctionDef)
                                                     'lru_cache': Opaque('functools.lru_cache'), 'cache': Opaque('functools.cache'),
                                                     'wraps': Opaque('functools.wraps'), 'reduce': Opaque('functools.reduce')})
    ospath = ModuleStub('os.path', {n: _concrete_or_external('os.path.' + n, getattr(os.path, n) if n in ('join', 'dirname', 'basename') else None)
                                    for n in ['join', 'dirname', 'basename', 'abspath', 'exists', 'isdir', 'getsize', 'isfile', 'realpath', 'normpath', 'normcase',
                                              'relpath', 'isabs', 'splitext', 'split', 'expanduser', 'samefile', 'getmtime', 'islink']})
    _MODULES['os'] = ModuleStub('os', {'path': ospath, 'getcwd': _concrete_or_external('os.getcwd', None)})
    _MODULES['re'] = ModuleStub('re', {n: _concrete_or_external('re.' + n, getattr(_re, n)) for n in ['sub', 'split', 'compile', 'match']})
    _MODULES['struct'] = ModuleStub('struct', {
        'pack': _concrete_or_external('struct.pack', _struct.pack),
        'unpack': _concrete_or_external('struct.unpack', _struct.unpack),
        'calcsize': _concrete_or_external('struct.calcsize', _struct.calcsize),
        'error': EXC['struct.error'],
    })
    _MODULES['sys'] = ModuleStub('sys', {'argv': Opaque('sys.argv'), 'stdout': Opaque('sys.stdout'),
                                         'platform': Opaque('sys.platform')})
    _MODULES['argparse'] = ModuleStub('argparse', {'ArgumentParser': _unsupported_builtin('argparse.ArgumentParser')})
    _MODULES['time'] = ModuleStub('time', {'sleep': _unsupported_builtin('time.sleep')})
    usbcore = ModuleStub('usb.core', {'find': _unsupported_builtin('usb.core.find')})
    libusb1 = ModuleStub('usb.backend.libusb1', {'get_backend': _unsupported_builtin('usb.backend.libusb1.get_backend')})
    _MODULES['usb'] = ModuleStub('usb', {'core': usbcore, 'backend': ModuleStub('usb.backend', {'libusb1': libusb1})})
    _MODULES['usb.core'] = _MODULES['usb']
    _MODULES['usb.backend.libusb1'] = _MODULES['usb']
    _MODULES['bronzebeard'] = ModuleStub('bronzebeard', {'__version__': Opaque('str')})
    _MODULES['intelhex'] = ModuleStub('intelhex', {'bin2hex': _unsupported_builtin('intelhex.bin2hex')})


_init_modules()


# --------------------------------------------------------------------------
# module loading: the real source, parsed on every run

class LoadedModule:
    def __init__(self, name, path, tree, source):
        self.name = name
        self.path = path
        self.tree = tree
        self.source = source
        self.lines = source.splitlines()

    def func_node(self, qualname):
        parts = qualname.split('.')
        body = self.tree.body
        node = None
        for p in parts:
            for s in body:
                if isinstance(s, (ast.FunctionDef, ast.ClassDef)) and s.name == p:
                    node = s
                    body = s.body
                    break
            else:
                raise KeyError(qualname)
        return node


def load_module(path, name):
    with open(path) as f:
        src = f.read()
    return LoadedModule(name, path, ast.parse(src, path), src)


def module_env(mod, run=None, contracts=None, hooks=None):
    """interpret the module's top level (concretely) and return (Interp, Env)"""
    run = run or Run([], IntDom)
    env = Env(None, {'__name__': mod.name, '__file__': mod.path})
    it = Interp(run, {}, contracts=contracts, hooks=hooks)
    for s in mod.tree.body:
        if isinstance(s, ast.Expr) and isinstance(s.value, ast.Constant):
            continue
        if isinstance(s, ast.If) and isinstance(s.test, ast.Compare) and isinstance(s.test.left, ast.Name) \
                and s.test.left.id == '__name__':
            continue
        it.exec(s, env)
    it.mods[mod.name] = env
    return it, env
