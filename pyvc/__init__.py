"""pyvc - verification-condition generator over the real bronzebeard source.

The source files under /repo are parsed with `ast` on every run; nothing from
the repository is copied or cached here.  See DESIGN.md section 2.
"""
import os

REPO = os.environ.get('BRONZEBEARD_REPO', '/repo')
VERIF = os.path.dirname(os.path.dirname(os.path.abspath(__file__)))
REPO_PY = os.environ.get('BRONZEBEARD_PY', '/venv/bin/python')
