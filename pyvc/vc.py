"""Obligations and their discharge (DESIGN 2.5).

An obligation is `hyps => goal`.  It is *discharged* when `hyps and not goal`
is unsat.  Each obligation also carries a cover check (`hyps` satisfiable)
unless it is a lemma over an already covered path.  Obligations are shipped to
worker processes as SMT-LIB text; z3 (python API) decides, `unknown` goes to
/usr/bin/cvc5 and /usr/bin/z3 (a different z3 build) as second opinions.
"""
import multiprocessing as mp
import os
import subprocess
import tempfile
import time

import z3


class Obligation:
    def __init__(self, name, hyps, goal, backend='INT', func=None, kind='post', meta=None, cover=True, expect='valid'):
        self.name = name
        self.hyps = [h for h in hyps]
        self.goal = goal
        self.backend = backend
        self.func = func            # function under contract this obligation belongs to
        self.kind = kind
        self.meta = meta or {}
        self.cover = cover
        self.expect = expect        # 'valid' (normal) | 'invalid' (canary: must be refuted)
        self.result = None          # 'valid' | 'invalid' | 'unknown'
        self.model = None
        self.ms = 0.0
        self.solver = None
        self.cover_result = None
        self.reason = None

    def strip(self):
        """make the obligation picklable (worker -> main): keep SMT-LIB text only where a report needs it"""
        self._text = self.smt2() if self.result in ('invalid', 'unknown') and self.expect == 'valid' else None
        self.hyps = None
        self.goal = None
        return self

    def smt2(self, negate_goal=True):
        if self.hyps is None:
            return self._text or ''
        s = z3.Solver()
        for h in self.hyps:
            s.add(h)
        if negate_goal:
            s.add(z3.Not(self.goal))
        return s.to_smt2()

    def to_json(self):
        return {'name': self.name, 'func': self.func, 'kind': self.kind, 'backend': self.backend,
                'solver': self.solver, 'result': self.result, 'ms': round(self.ms, 2),
                'cover': self.cover_result}


def _model_to_dict(m):
    out = {}
    for d in m.decls():
        if d.arity() != 0:
            continue
        v = m[d]
        name = d.name()
        if z3.is_int_value(v):
            out[name] = v.as_long()
        elif z3.is_bv_value(v):
            out[name] = v.as_signed_long()
        elif z3.is_true(v):
            out[name] = True
        elif z3.is_false(v):
            out[name] = False
        else:
            out[name] = str(v)
    return out


def _run_cli(cmd, text, timeout_s):
    with tempfile.NamedTemporaryFile('w', suffix='.smt2', delete=False) as f:
        f.write(text)
        path = f.name
    try:
        p = subprocess.run(cmd + [path], capture_output=True, text=True, timeout=timeout_s + 5)
        out = p.stdout.strip().splitlines()
        return out[0].strip() if out else 'unknown'
    except subprocess.TimeoutExpired:
        return 'unknown'
    finally:
        os.unlink(path)


def _check_text(text, timeout_ms, second_opinion=True, want_model=True):
    """returns (status, model|None, solver, ms)"""
    t0 = time.time()
    s = z3.Solver()
    s.set('timeout', timeout_ms)
    s.from_string(text)
    r = s.check()
    ms = (time.time() - t0) * 1000
    if r == z3.unsat:
        return 'unsat', None, 'z3-%s' % z3.get_version_string(), ms
    if r == z3.sat:
        return 'sat', (_model_to_dict(s.model()) if want_model else None), 'z3-%s' % z3.get_version_string(), ms
    if second_opinion:
        for solver, cmd in (('cvc5', ['/usr/bin/cvc5', '--tlimit=%d' % timeout_ms]),
                            ('z3-4.8.12', ['/usr/bin/z3', '-T:%d' % max(1, timeout_ms // 1000)])):
            if not os.path.exists(cmd[0]):
                continue
            txt = text if solver != 'cvc5' else '(set-logic ALL)\n' + text
            st = _run_cli(cmd, txt, timeout_ms / 1000.0)
            if st in ('sat', 'unsat'):
                return st, None, solver, (time.time() - t0) * 1000
    return 'unknown', None, 'z3', (time.time() - t0) * 1000


def _work(job):
    idx, text, cover_text, timeout_ms = job
    st, model, solver, ms = _check_text(text, timeout_ms)
    cov = None
    if cover_text is not None and st == 'unsat':
        cst, _, _, cms = _check_text(cover_text, timeout_ms, second_opinion=False, want_model=False)
        cov = cst
        ms += cms
    return idx, st, model, solver, ms, cov


_POOL = None


def pool(jobs):
    global _POOL
    if _POOL is None:
        ctx = mp.get_context('fork')
        _POOL = ctx.Pool(jobs)
    return _POOL


def discharge(obls, timeout_ms=10000, jobs=None, serial_below=40):
    """decide every obligation; fills result/model/ms/solver/cover_result"""
    jobs = jobs or min(16, os.cpu_count() or 1)
    work = []
    for i, o in enumerate(obls):
        text = o.smt2(True)
        cover_text = o.smt2(False) if o.cover else None
        work.append((i, text, cover_text, timeout_ms))
    if len(work) < serial_below or jobs == 1:
        results = [_work(w) for w in work]
    else:
        results = pool(jobs).map(_work, work, chunksize=max(1, len(work) // (jobs * 4)))
    for idx, st, model, solver, ms, cov in results:
        o = obls[idx]
        o.ms = ms
        o.solver = solver
        o.cover_result = cov
        if st == 'unsat':
            o.result = 'valid'
        elif st == 'sat':
            o.result = 'invalid'
            o.model = model
        else:
            o.result = 'unknown'
    return obls


def crosscheck_solvers(obls, timeout_ms=60000, jobs=None):
    """thorough tier: every obligation additionally on cvc5 and /usr/bin/z3; returns list of disagreements"""
    jobs = jobs or min(16, os.cpu_count() or 1)
    work = [(i, o.smt2(True), timeout_ms) for i, o in enumerate(obls)]
    res = pool(jobs).map(_second, work, chunksize=max(1, len(work) // (jobs * 4)))
    bad = []
    agree = 0
    for idx, answers in res:
        o = obls[idx]
        exp = {'valid': 'unsat', 'invalid': 'sat'}.get(o.result)
        for solver, st in answers.items():
            if st in ('sat', 'unsat'):
                if exp is not None and st != exp:
                    bad.append((o.name, solver, st, o.result))
                else:
                    agree += 1
        o.meta['second'] = answers
    return agree, bad


def _second(job):
    idx, text, timeout_ms = job
    out = {}
    if os.path.exists('/usr/bin/cvc5'):
        out['cvc5'] = _run_cli(['/usr/bin/cvc5', '--tlimit=%d' % timeout_ms], '(set-logic ALL)\n' + text, timeout_ms / 1000.0)
    if os.path.exists('/usr/bin/z3'):
        out['z3-4.8.12'] = _run_cli(['/usr/bin/z3', '-T:%d' % max(1, timeout_ms // 1000)], text, timeout_ms / 1000.0)
    return idx, out
