"""Operation objects: every spec function is written once against this small
interface and runs both concretely (Python ints) and symbolically (z3
bit-vectors of width 64).  DESIGN 2.3 / 3."""
import z3

W = 64


class PyOps:
    symbolic = False

    def bits(self, w, hi, lo):
        return (w >> lo) & ((1 << (hi - lo + 1)) - 1)

    def sext(self, x, nbits):
        s = 1 << (nbits - 1)
        return (x & (s - 1)) - (x & s)

    def const(self, n):
        return n

    def shl(self, x, k):
        return x << k

    def or_(self, *xs):
        r = 0
        for x in xs:
            r |= x
        return r

    def eq(self, a, b):
        return a == b

    def ne(self, a, b):
        return a != b

    def and_(self, *xs):
        return all(xs)

    def or_b(self, *xs):
        return any(xs)

    def not_(self, x):
        return not x

    def ite(self, c, a, b):
        return a if c else b

    def le(self, a, b):
        return a <= b

    def lt(self, a, b):
        return a < b

    def true(self):
        return True

    def mod2n(self, x, n):
        return x & ((1 << n) - 1)

    def add(self, a, b):
        return a + b

    def sub(self, a, b):
        return a - b

    def implies(self, a, b):
        return (not a) or b


class BVOps:
    symbolic = True

    def bits(self, w, hi, lo):
        return z3.ZeroExt(W - (hi - lo + 1), z3.Extract(hi, lo, w))

    def sext(self, x, nbits):
        return z3.SignExt(W - nbits, z3.Extract(nbits - 1, 0, x))

    def const(self, n):
        return z3.BitVecVal(n, W)

    def shl(self, x, k):
        return x << k

    def or_(self, *xs):
        r = xs[0]
        for x in xs[1:]:
            r = r | x
        return r

    def _c(self, a):
        return z3.BitVecVal(a, W) if isinstance(a, int) else a

    def eq(self, a, b):
        return self._c(a) == self._c(b)

    def ne(self, a, b):
        return self._c(a) != self._c(b)

    def and_(self, *xs):
        return z3.And(*[z3.BoolVal(x) if isinstance(x, bool) else x for x in xs]) if xs else z3.BoolVal(True)

    def or_b(self, *xs):
        return z3.Or(*[z3.BoolVal(x) if isinstance(x, bool) else x for x in xs]) if xs else z3.BoolVal(False)

    def not_(self, x):
        return z3.Not(x)

    def ite(self, c, a, b):
        return z3.If(c, self._c(a), self._c(b))

    def le(self, a, b):
        return self._c(a) <= self._c(b)      # signed

    def lt(self, a, b):
        return self._c(a) < self._c(b)

    def true(self):
        return z3.BoolVal(True)

    def mod2n(self, x, n):
        return self._c(x) & z3.BitVecVal((1 << n) - 1, W)

    def add(self, a, b):
        return self._c(a) + self._c(b)

    def sub(self, a, b):
        return self._c(a) - self._c(b)

    def implies(self, a, b):
        return z3.Implies(a, b)


class IntOps:
    """mathematical integers (z3 Int) - for legality predicates over unbounded operands"""
    symbolic = True

    def const(self, n):
        return z3.IntVal(n)

    def _c(self, a):
        return z3.IntVal(a) if isinstance(a, int) else a

    def eq(self, a, b):
        return self._c(a) == self._c(b)

    def ne(self, a, b):
        return self._c(a) != self._c(b)

    def and_(self, *xs):
        return z3.And(*[z3.BoolVal(x) if isinstance(x, bool) else x for x in xs]) if xs else z3.BoolVal(True)

    def or_b(self, *xs):
        return z3.Or(*[z3.BoolVal(x) if isinstance(x, bool) else x for x in xs]) if xs else z3.BoolVal(False)

    def not_(self, x):
        return z3.Not(x)

    def ite(self, c, a, b):
        return z3.If(c, self._c(a), self._c(b))

    def le(self, a, b):
        return self._c(a) <= self._c(b)

    def lt(self, a, b):
        return self._c(a) < self._c(b)

    def true(self):
        return z3.BoolVal(True)

    def mod2n(self, x, n):
        return self._c(x) % (1 << n)

    def add(self, a, b):
        return self._c(a) + self._c(b)

    def sub(self, a, b):
        return self._c(a) - self._c(b)

    def implies(self, a, b):
        return z3.Implies(a, b)

    def divisible(self, x, n):
        return self._c(x) % n == 0


def _divisible_py(self, x, n):
    return x % n == 0


def _divisible_bv(self, x, n):
    # n is a power of two
    return (self._c(x) & z3.BitVecVal(n - 1, W)) == 0


PyOps.divisible = _divisible_py
BVOps.divisible = _divisible_bv

PY = PyOps()
BV = BVOps()
INT = IntOps()
