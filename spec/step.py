"""Reference RV32 step semantics for the instructions that pseudo-instruction expansions and the one
semantic compression rule use (DESIGN 3.3).  From the RISC-V unprivileged manual, chapter "RV32I Base Integer
Instruction Set".  Registers: z3 array BitVec(5) -> BitVec(32); x0 reads zero and ignores writes.

step(regs, pc, mnemonic, ops) -> (regs', pc', mem) where ops are in the documented operand order (spec/rv32.py),
register numbers as 5-bit vectors (or python ints), immediates as 32-bit vectors (or python ints)."""
import z3

XLEN = 32


def bv(x, n=XLEN):
    return z3.BitVecVal(x, n) if isinstance(x, int) else x


def r5(x):
    return z3.BitVecVal(x, 5) if isinstance(x, int) else x


def rd_reg(regs, r):
    r = r5(r)
    return z3.If(r == 0, z3.BitVecVal(0, XLEN), z3.Select(regs, r))


def wr_reg(regs, r, v):
    r = r5(r)
    return z3.If(r == 0, regs, z3.Store(regs, r, v))


def step(regs, pc, m, ops):
    """returns (regs', pc', mem) ; mem is None or ('load'|'store', address, width, value)"""
    pc = bv(pc)
    nxt = pc + 4
    if m in ('addi', 'xori', 'ori', 'andi', 'slti', 'sltiu'):
        rd, rs1, imm = ops
        a, i = rd_reg(regs, rs1), bv(imm)
        v = {'addi': lambda: a + i, 'xori': lambda: a ^ i, 'ori': lambda: a | i, 'andi': lambda: a & i,
             'slti': lambda: z3.If(a < i, bv(1), bv(0)), 'sltiu': lambda: z3.If(z3.ULT(a, i), bv(1), bv(0))}[m]()
        return wr_reg(regs, rd, v), nxt, None
    if m in ('add', 'sub', 'slt', 'sltu', 'xor', 'or', 'and'):
        rd, rs1, rs2 = ops
        a, b = rd_reg(regs, rs1), rd_reg(regs, rs2)
        v = {'add': lambda: a + b, 'sub': lambda: a - b, 'xor': lambda: a ^ b, 'or': lambda: a | b, 'and': lambda: a & b,
             'slt': lambda: z3.If(a < b, bv(1), bv(0)), 'sltu': lambda: z3.If(z3.ULT(a, b), bv(1), bv(0))}[m]()
        return wr_reg(regs, rd, v), nxt, None
    if m in ('slli', 'srli', 'srai'):
        rd, rs1, sh = ops
        a = rd_reg(regs, rs1)
        s = z3.ZeroExt(XLEN - 5, r5(sh)) if not isinstance(sh, int) else bv(sh)
        v = {'slli': lambda: a << s, 'srli': lambda: z3.LShR(a, s), 'srai': lambda: a >> s}[m]()
        return wr_reg(regs, rd, v), nxt, None
    if m == 'lui':
        rd, imm20 = ops          # imm20: the 20-bit field as a 32-bit vector
        return wr_reg(regs, rd, bv(imm20) << 12), nxt, None
    if m == 'auipc':
        rd, imm20 = ops
        return wr_reg(regs, rd, pc + (bv(imm20) << 12)), nxt, None
    if m == 'jal':
        rd, imm = ops
        return wr_reg(regs, rd, nxt), pc + bv(imm), None
    if m == 'jalr':
        rd, rs1, imm = ops
        target = (rd_reg(regs, rs1) + bv(imm)) & bv(0xfffffffe)
        return wr_reg(regs, rd, nxt), target, None
    if m in ('beq', 'bne', 'blt', 'bge', 'bltu', 'bgeu'):
        rs1, rs2, imm = ops
        a, b = rd_reg(regs, rs1), rd_reg(regs, rs2)
        c = {'beq': a == b, 'bne': a != b, 'blt': a < b, 'bge': a >= b, 'bltu': z3.ULT(a, b), 'bgeu': z3.UGE(a, b)}[m]
        return regs, z3.If(c, pc + bv(imm), nxt), None
    if m in ('lw', 'lh', 'lb', 'lhu', 'lbu'):
        rd, rs1, imm = ops
        addr = rd_reg(regs, rs1) + bv(imm)
        v = z3.BitVec('loaded_%s' % m, XLEN)
        return wr_reg(regs, rd, v), nxt, ('load', addr, m, None)
    if m in ('sw', 'sh', 'sb'):
        rs1, rs2, imm = ops
        addr = rd_reg(regs, rs1) + bv(imm)
        return regs, nxt, ('store', addr, m, rd_reg(regs, rs2))
    if m in ('fence', 'fence.i', 'ecall', 'ebreak'):
        return regs, nxt, (m,) + tuple(ops)
    raise KeyError(m)


def same_effect(regs, pc, a, b, size_a=4, size_b=4):
    """z3 term: instructions a=(m, ops) and b=(m, ops) have the same architectural effect from (regs, pc),
    up to the instruction length (next pc / link value are relative to each instruction's own size)"""
    ra, pa, ma = step(regs, pc, *a)
    rb, pb, mb = step(regs, pc, *b)
    conds = [ra == rb]
    # sequential next pc differs by the size; control transfers must agree exactly
    conds.append((pa - bv(size_a)) == (pb - bv(size_b)) if True else True)
    if (ma is None) != (mb is None):
        return z3.BoolVal(False)
    if ma is not None:
        if ma[0] != mb[0] or len(ma) != len(mb):
            return z3.BoolVal(False)
        for x, y in zip(ma[1:], mb[1:]):
            if isinstance(x, str) or isinstance(y, str) or x is None or y is None:
                if x is not y and x != y:
                    return z3.BoolVal(False)
            else:
                conds.append(bv(x) == bv(y) if not (isinstance(x, int) and isinstance(y, int)) else z3.BoolVal(x == y))
    return z3.And(*conds)
