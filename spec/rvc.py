"""RV32C encodings: quadrant tables, immediate scatters, legal operand sets,
hints / reserved encodings, and the expansion of every form into its base
instruction.  Transcribed from the RISC-V unprivileged manual, chapter
'"C" Standard Extension for Compressed Instructions' (tables "Instruction
listing for RVC, Quadrant 0/1/2"), NOT from the repository.  Operand order is
the one docs/instruction_reference.rst documents.

Generic over spec.ops (PY / BV / INT)."""

# ---- immediates: list of (halfword bit, immediate bit) pairs -----------------
def _sc(spec):
    """spec: list of (hi_hw, lo_hw, hi_imm, lo_imm) slices -> list of (hw_bit, imm_bit)"""
    out = []
    for hh, hl, ih, il in spec:
        assert hh - hl == ih - il
        for k in range(hh - hl + 1):
            out.append((hl + k, il + k))
    return out


SC = {
    # CIW nzuimm[5:4|9:6|2|3] in inst[12:5]
    'ciw': _sc([(12, 11, 5, 4), (10, 7, 9, 6), (6, 6, 2, 2), (5, 5, 3, 3)]),
    # CL/CS uimm[5:3] in inst[12:10], uimm[2|6] in inst[6:5]
    'cl': _sc([(12, 10, 5, 3), (6, 6, 2, 2), (5, 5, 6, 6)]),
    # CI imm[5] inst[12], imm[4:0] inst[6:2]
    'ci': _sc([(12, 12, 5, 5), (6, 2, 4, 0)]),
    # CJ imm[11|4|9:8|10|6|7|3:1|5] in inst[12:2]
    'cj': _sc([(12, 12, 11, 11), (11, 11, 4, 4), (10, 9, 9, 8), (8, 8, 10, 10), (7, 7, 6, 6), (6, 6, 7, 7),
               (5, 3, 3, 1), (2, 2, 5, 5)]),
    # C.ADDI16SP nzimm[9] inst[12], nzimm[4|6|8:7|5] inst[6:2]
    'ci16': _sc([(12, 12, 9, 9), (6, 6, 4, 4), (5, 5, 6, 6), (4, 3, 8, 7), (2, 2, 5, 5)]),
    # CB imm[8|4:3] inst[12:10], imm[7:6|2:1|5] inst[6:2]
    'cb': _sc([(12, 12, 8, 8), (11, 10, 4, 3), (6, 5, 7, 6), (4, 3, 2, 1), (2, 2, 5, 5)]),
    # C.LWSP uimm[5] inst[12], uimm[4:2|7:6] inst[6:2]
    'lwsp': _sc([(12, 12, 5, 5), (6, 4, 4, 2), (3, 2, 7, 6)]),
    # C.SWSP uimm[5:2|7:6] inst[12:7]
    'swsp': _sc([(12, 9, 5, 2), (8, 7, 7, 6)]),
}


def imm_of(o, h, sc):
    """assemble the (unsigned) immediate from halfword h"""
    parts = [o.shl(o.bits(h, hb, hb), ib) for hb, ib in SC[sc]]
    return o.or_(*parts)


def imm_bits(sc):
    return max(ib for _, ib in SC[sc]) + 1


# ---- table ---------------------------------------------------------------------
# mnemonic -> dict(
#   fixed = [(hi, lo, value)...]                bits that identify the form
#   ops   = [(role, kind, where)...]            operands in documented order
#       kind 'r'  : full register in bits where=(hi,lo)
#       kind "r'" : compressed register x8..x15 in 3 bits
#       kind 'simm'/'uimm': immediate with scatter `where`, signed / unsigned
#       kind 'lui': C.LUI immediate (signed 6-bit field, or its 20-bit unsigned spelling)
#   cons  = constraints on canonical operand values (callable(o, d) -> bool term)
#   expand = callable(d) -> (base mnemonic, operand tuple in base documented order)
# )
def _nz(name):
    return lambda o, d: o.ne(d[name], 0)


T = {
    'c.addi4spn': dict(fixed=[(1, 0, 0b00), (15, 13, 0b000)], ops=[('rd', "r'", (4, 2)), ('imm', 'uimm', 'ciw')],
                       cons=[_nz('imm')], expand=lambda d: ('addi', (d['rd'], 2, d['imm']))),
    'c.lw': dict(fixed=[(1, 0, 0b00), (15, 13, 0b010)], ops=[('rd', "r'", (4, 2)), ('rs1', "r'", (9, 7)), ('imm', 'uimm', 'cl')],
                 cons=[], expand=lambda d: ('lw', (d['rd'], d['rs1'], d['imm']))),
    'c.sw': dict(fixed=[(1, 0, 0b00), (15, 13, 0b110)], ops=[('rs1', "r'", (9, 7)), ('rs2', "r'", (4, 2)), ('imm', 'uimm', 'cl')],
                 cons=[], expand=lambda d: ('sw', (d['rs1'], d['rs2'], d['imm']))),
    'c.nop': dict(fixed=[(1, 0, 0b01), (15, 13, 0b000), (11, 7, 0), (12, 12, 0), (6, 2, 0)], ops=[], cons=[],
                  expand=lambda d: ('addi', (0, 0, 0))),
    'c.addi': dict(fixed=[(1, 0, 0b01), (15, 13, 0b000)], ops=[('rd_rs1', 'r', (11, 7)), ('imm', 'simm', 'ci')],
                   cons=[_nz('rd_rs1'), _nz('imm')], expand=lambda d: ('addi', (d['rd_rs1'], d['rd_rs1'], d['imm']))),
    'c.jal': dict(fixed=[(1, 0, 0b01), (15, 13, 0b001)], ops=[('imm', 'simm', 'cj')], cons=[],
                  expand=lambda d: ('jal', (1, d['imm']))),
    'c.li': dict(fixed=[(1, 0, 0b01), (15, 13, 0b010)], ops=[('rd_rs1', 'r', (11, 7)), ('imm', 'simm', 'ci')],
                 cons=[_nz('rd_rs1')], expand=lambda d: ('addi', (d['rd_rs1'], 0, d['imm']))),
    'c.addi16sp': dict(fixed=[(1, 0, 0b01), (15, 13, 0b011), (11, 7, 2)], ops=[('imm', 'simm', 'ci16')],
                       cons=[_nz('imm')], expand=lambda d: ('addi', (2, 2, d['imm']))),
    'c.lui': dict(fixed=[(1, 0, 0b01), (15, 13, 0b011)], ops=[('rd_rs1', 'r', (11, 7)), ('imm', 'lui', 'ci')],
                  cons=[_nz('rd_rs1'), lambda o, d: o.ne(d['rd_rs1'], 2), _nz('imm')],
                  expand=lambda d: ('lui', (d['rd_rs1'], d['imm']))),
    'c.srli': dict(fixed=[(1, 0, 0b01), (15, 13, 0b100), (11, 10, 0b00)], ops=[('rd_rs1', "r'", (9, 7)), ('imm', 'uimm', 'ci')],
                   cons=[_nz('imm'), lambda o, d: o.le(d['imm'], 31)], expand=lambda d: ('srli', (d['rd_rs1'], d['rd_rs1'], d['imm']))),
    'c.srai': dict(fixed=[(1, 0, 0b01), (15, 13, 0b100), (11, 10, 0b01)], ops=[('rd_rs1', "r'", (9, 7)), ('imm', 'uimm', 'ci')],
                   cons=[_nz('imm'), lambda o, d: o.le(d['imm'], 31)], expand=lambda d: ('srai', (d['rd_rs1'], d['rd_rs1'], d['imm']))),
    'c.andi': dict(fixed=[(1, 0, 0b01), (15, 13, 0b100), (11, 10, 0b10)], ops=[('rd_rs1', "r'", (9, 7)), ('imm', 'simm', 'ci')],
                   cons=[], expand=lambda d: ('andi', (d['rd_rs1'], d['rd_rs1'], d['imm']))),
    'c.sub': dict(fixed=[(1, 0, 0b01), (15, 10, 0b100011), (6, 5, 0b00)], ops=[('rd_rs1', "r'", (9, 7)), ('rs2', "r'", (4, 2))],
                  cons=[], expand=lambda d: ('sub', (d['rd_rs1'], d['rd_rs1'], d['rs2']))),
    'c.xor': dict(fixed=[(1, 0, 0b01), (15, 10, 0b100011), (6, 5, 0b01)], ops=[('rd_rs1', "r'", (9, 7)), ('rs2', "r'", (4, 2))],
                  cons=[], expand=lambda d: ('xor', (d['rd_rs1'], d['rd_rs1'], d['rs2']))),
    'c.or': dict(fixed=[(1, 0, 0b01), (15, 10, 0b100011), (6, 5, 0b10)], ops=[('rd_rs1', "r'", (9, 7)), ('rs2', "r'", (4, 2))],
                 cons=[], expand=lambda d: ('or', (d['rd_rs1'], d['rd_rs1'], d['rs2']))),
    'c.and': dict(fixed=[(1, 0, 0b01), (15, 10, 0b100011), (6, 5, 0b11)], ops=[('rd_rs1', "r'", (9, 7)), ('rs2', "r'", (4, 2))],
                  cons=[], expand=lambda d: ('and', (d['rd_rs1'], d['rd_rs1'], d['rs2']))),
    'c.j': dict(fixed=[(1, 0, 0b01), (15, 13, 0b101)], ops=[('imm', 'simm', 'cj')], cons=[],
                expand=lambda d: ('jal', (0, d['imm']))),
    'c.beqz': dict(fixed=[(1, 0, 0b01), (15, 13, 0b110)], ops=[('rs1', "r'", (9, 7)), ('imm', 'simm', 'cb')], cons=[],
                   expand=lambda d: ('beq', (d['rs1'], 0, d['imm']))),
    'c.bnez': dict(fixed=[(1, 0, 0b01), (15, 13, 0b111)], ops=[('rs1', "r'", (9, 7)), ('imm', 'simm', 'cb')], cons=[],
                   expand=lambda d: ('bne', (d['rs1'], 0, d['imm']))),
    'c.slli': dict(fixed=[(1, 0, 0b10), (15, 13, 0b000)], ops=[('rd_rs1', 'r', (11, 7)), ('imm', 'uimm', 'ci')],
                   cons=[_nz('rd_rs1'), _nz('imm'), lambda o, d: o.le(d['imm'], 31)],
                   expand=lambda d: ('slli', (d['rd_rs1'], d['rd_rs1'], d['imm']))),
    'c.lwsp': dict(fixed=[(1, 0, 0b10), (15, 13, 0b010)], ops=[('rd_rs1', 'r', (11, 7)), ('imm', 'uimm', 'lwsp')],
                   cons=[_nz('rd_rs1')], expand=lambda d: ('lw', (d['rd_rs1'], 2, d['imm']))),
    'c.jr': dict(fixed=[(1, 0, 0b10), (15, 12, 0b1000), (6, 2, 0)], ops=[('rd_rs1', 'r', (11, 7))],
                 cons=[_nz('rd_rs1')], expand=lambda d: ('jalr', (0, d['rd_rs1'], 0))),
    'c.mv': dict(fixed=[(1, 0, 0b10), (15, 12, 0b1000)], ops=[('rd_rs1', 'r', (11, 7)), ('rs2', 'r', (6, 2))],
                 cons=[_nz('rd_rs1'), _nz('rs2')], expand=lambda d: ('add', (d['rd_rs1'], 0, d['rs2']))),
    'c.ebreak': dict(fixed=[(1, 0, 0b10), (15, 12, 0b1001), (11, 7, 0), (6, 2, 0)], ops=[], cons=[],
                     expand=lambda d: ('ebreak', ())),
    'c.jalr': dict(fixed=[(1, 0, 0b10), (15, 12, 0b1001), (6, 2, 0)], ops=[('rd_rs1', 'r', (11, 7))],
                   cons=[_nz('rd_rs1')], expand=lambda d: ('jalr', (1, d['rd_rs1'], 0))),
    'c.add': dict(fixed=[(1, 0, 0b10), (15, 12, 0b1001)], ops=[('rd_rs1', 'r', (11, 7)), ('rs2', 'r', (6, 2))],
                  cons=[_nz('rd_rs1'), _nz('rs2')], expand=lambda d: ('add', (d['rd_rs1'], d['rd_rs1'], d['rs2']))),
    'c.swsp': dict(fixed=[(1, 0, 0b10), (15, 13, 0b110)], ops=[('rs2', 'r', (6, 2)), ('imm', 'uimm', 'swsp')],
                   cons=[], expand=lambda d: ('sw', (2, d['rs2'], d['imm']))),
}
assert len(T) == 27


def roles(m):
    return tuple(r for r, _, _ in T[m]['ops'])


def kinds(m):
    return tuple(k for _, k, _ in T[m]['ops'])


def _scale(sc):
    return 1 << min(ib for _, ib in SC[sc])


def legal_operand(o, m, role, v):
    for r, kind, where in T[m]['ops']:
        if r != role:
            continue
        if kind == 'r':
            return o.and_(o.le(0, v), o.le(v, 31))
        if kind == "r'":
            return o.and_(o.le(8, v), o.le(v, 15))
        n = imm_bits(where)
        if kind == 'uimm':
            return o.and_(o.le(0, v), o.le(v, (1 << n) - 1), o.divisible(v, _scale(where)))
        if kind == 'simm':
            return o.and_(o.le(-(1 << (n - 1)), v), o.le(v, (1 << (n - 1)) - 1), o.divisible(v, _scale(where)))
        if kind == 'lui':
            return o.or_b(o.and_(o.le(-32, v), o.le(v, 31)), o.and_(o.le(0xfffe0, v), o.le(v, 0xfffff)))
    raise KeyError(role)


def canon(o, m, role, v):
    for r, kind, where in T[m]['ops']:
        if r == role and kind == 'lui':
            # the 6-bit field, sign-extended: both spellings of one field are one operand
            if o.symbolic:
                return o.ite(o.le(0xfffe0, v), o.sub(v, 1 << 20), v)
            return v - (1 << 20) if v >= 0xfffe0 else v
    return v


def legal(o, m, ops):
    d = {}
    c = []
    for (r, kind, where), v in zip(T[m]['ops'], ops):
        c.append(legal_operand(o, m, r, v))
        d[r] = canon(o, m, r, v)
    for k in T[m]['cons']:
        c.append(k(o, d))
    return o.and_(*c)


def field_value(o, m, h, role):
    """canonical operand value read back from halfword h"""
    for r, kind, where in T[m]['ops']:
        if r != role:
            continue
        if kind == 'r':
            return o.bits(h, where[0], where[1])
        if kind == "r'":
            return o.add(o.bits(h, where[0], where[1]), 8)
        u = imm_of(o, h, where)
        if kind == 'uimm':
            return u
        return o.sext(u, imm_bits(where))
    raise KeyError(role)


def fixed_match(o, m, h):
    return o.and_(*[o.eq(o.bits(h, hi, lo), v) for hi, lo, v in T[m]['fixed']])


def matches(o, m, h, ops):
    """halfword h decodes under the RVC tables to mnemonic m with canonical operands ops, and is a legal,
    non-hint, non-reserved RV32C encoding"""
    c = [fixed_match(o, m, h), o.eq(o.bits(h, 63, 16), 0) if o.symbolic else (0 <= h < 65536)]
    d = {}
    for (r, kind, where), v in zip(T[m]['ops'], ops):
        d[r] = canon(o, m, r, v)
        c.append(o.eq(field_value(o, m, h, r), d[r]))
    # legality of what was read back (non-hint, non-reserved): the form's constraints
    rb = {r: field_value(o, m, h, r) for r, _, _ in T[m]['ops']}
    for k in T[m]['cons']:
        c.append(k(o, rb))
    return o.and_(*c)


# order in which overlapping fixed patterns are resolved (more specific first), per the quadrant tables
ORDER = ['c.addi4spn', 'c.lw', 'c.sw', 'c.nop', 'c.addi', 'c.jal', 'c.li', 'c.addi16sp', 'c.lui', 'c.srli', 'c.srai',
         'c.andi', 'c.sub', 'c.xor', 'c.or', 'c.and', 'c.j', 'c.beqz', 'c.bnez', 'c.slli', 'c.lwsp', 'c.jr', 'c.mv',
         'c.ebreak', 'c.jalr', 'c.add', 'c.swsp']


def classify(h):
    """concrete: halfword -> (mnemonic, canonical operands) if it is a legal non-hint non-reserved RV32C integer
    encoding handled by one of the 27 forms, else a tag: 'hint' | 'reserved' | 'fp' | 'not16'."""
    from .ops import PY as o
    if not (0 <= h < 65536):
        return 'not16'
    if h & 3 == 3:
        return 'not16'
    q, f3 = h & 3, (h >> 13) & 7
    if q == 0 and f3 in (1, 3, 5, 7):
        return 'fp'
    if q == 2 and f3 in (1, 3, 5, 7):
        return 'fp'
    if q == 0 and f3 == 4:
        return 'reserved'
    hits = []
    for m in ORDER:
        if not fixed_match(o, m, h):
            continue
        rb = {r: field_value(o, m, h, r) for r, _, _ in T[m]['ops']}
        if all(k(o, rb) for k in T[m]['cons']):
            hits.append((m, tuple(rb[r] for r in roles(m))))
    # disambiguate nested patterns (c.nop within c.addi's pattern etc.): a hit whose fixed bits are a superset wins
    if len(hits) > 1:
        best = max(hits, key=lambda x: sum(hi - lo + 1 for hi, lo, _ in T[x[0]]['fixed']))
        hits = [best]
    if hits:
        return hits[0]
    # not one of the 27 legal forms: hint or reserved per the tables
    if q == 1 and f3 == 4 and ((h >> 10) & 3) == 3 and (h >> 12) & 1:
        return 'reserved'          # C.SUBW/C.ADDW: RV64 only
    if q == 1 and f3 == 4 and ((h >> 10) & 3) in (0, 1) and (h >> 12) & 1:
        return 'reserved'          # shamt[5] = 1: RV32 NSE
    if q == 2 and f3 == 0 and (h >> 12) & 1:
        return 'reserved'
    if q == 0 and f3 == 0:
        return 'reserved'          # nzuimm = 0 (incl. the all-zero illegal instruction)
    if q == 1 and f3 == 3:
        return 'reserved' if (((h >> 12) & 1) == 0 and ((h >> 2) & 31) == 0) else 'hint'
    if q == 2 and f3 == 2:
        return 'reserved'          # c.lwsp rd = 0
    if q == 2 and f3 == 4 and ((h >> 2) & 31) == 0 and ((h >> 7) & 31) == 0 and ((h >> 12) & 1) == 0:
        return 'reserved'          # c.jr rs1 = 0
    return 'hint'


def expand(m, ops):
    d = dict(zip(roles(m), ops))
    return T[m]['expand'](d)
