"""Documented effect of the 27 pseudo-instructions (docs/instruction_reference.rst, table "Pseudo
Instructions", columns Instruction / Description), as functions over the reference register file of
spec/step.py.  This is the oracle for C05; it does not mention the expansions.

effect(name, regs, pc, ops, target) -> (regs', pc')  with
   ops     register operands as 5-bit vectors in the documented operand order
   target  absolute address of the label operand (32-bit vector) for branches / jumps
   pc      address of the pseudo-instruction, size its emitted size in bytes (for link values / fall-through)
"""
import z3

from spec.step import bv, rd_reg, wr_reg

ARITY = {'nop': 0, 'li': 1, 'mv': 2, 'not': 2, 'neg': 2, 'seqz': 2, 'snez': 2, 'sltz': 2, 'sgtz': 2,
         'beqz': 1, 'bnez': 1, 'blez': 1, 'bgez': 1, 'bltz': 1, 'bgtz': 1, 'bgt': 2, 'ble': 2, 'bgtu': 2, 'bleu': 2,
         'j': 0, 'jal': 0, 'jr': 1, 'jalr': 1, 'ret': 0, 'call': 0, 'tail': 0, 'fence': 0}
HAS_TARGET = {'beqz', 'bnez', 'blez', 'bgez', 'bltz', 'bgtz', 'bgt', 'ble', 'bgtu', 'bleu', 'j', 'jal', 'call', 'tail'}

one, zero = bv(1), bv(0)


def effect(name, regs, pc, ops, target=None, size=4, value=None):
    nxt = pc + bv(size)
    R = lambda r: rd_reg(regs, r)        # noqa: E731
    if name in ('nop', 'fence'):
        return regs, nxt
    if name == 'li':                      # Load immediate
        return wr_reg(regs, ops[0], value), nxt
    if name == 'mv':                      # Copy register
        return wr_reg(regs, ops[0], R(ops[1])), nxt
    if name == 'not':                     # One's complement
        return wr_reg(regs, ops[0], ~R(ops[1])), nxt
    if name == 'neg':                     # Two's complement
        return wr_reg(regs, ops[0], -R(ops[1])), nxt
    if name == 'seqz':                    # Set if == zero
        return wr_reg(regs, ops[0], z3.If(R(ops[1]) == 0, one, zero)), nxt
    if name == 'snez':                    # Set if != zero
        return wr_reg(regs, ops[0], z3.If(R(ops[1]) != 0, one, zero)), nxt
    if name == 'sltz':                    # Set if < zero
        return wr_reg(regs, ops[0], z3.If(R(ops[1]) < 0, one, zero)), nxt
    if name == 'sgtz':                    # Set if > zero
        return wr_reg(regs, ops[0], z3.If(R(ops[1]) > 0, one, zero)), nxt
    if name in ('beqz', 'bnez', 'blez', 'bgez', 'bltz', 'bgtz'):
        a = R(ops[0])
        c = {'beqz': a == 0, 'bnez': a != 0, 'blez': a <= 0, 'bgez': a >= 0, 'bltz': a < 0, 'bgtz': a > 0}[name]
        return regs, z3.If(c, target, nxt)
    if name in ('bgt', 'ble', 'bgtu', 'bleu'):
        a, b = R(ops[0]), R(ops[1])
        c = {'bgt': a > b, 'ble': a <= b, 'bgtu': z3.UGT(a, b), 'bleu': z3.ULE(a, b)}[name]
        return regs, z3.If(c, target, nxt)
    if name == 'j':                       # Jump
        return regs, target
    if name == 'jal':                     # Jump and link (x1)
        return wr_reg(regs, 1, nxt), target
    if name == 'jr':                      # Jump register
        return regs, R(ops[0]) & bv(0xfffffffe)
    if name == 'jalr':                    # Jump and link register
        return wr_reg(regs, 1, nxt), R(ops[0]) & bv(0xfffffffe)
    if name == 'ret':                     # Return from subroutine
        return regs, R(1) & bv(0xfffffffe)
    if name == 'call':                    # Call (far-away) subroutine: link in x1
        return wr_reg(regs, 1, nxt), target
    if name == 'tail':                    # Tail call: no link; x6 is scratch in the far form
        return regs, target
    raise KeyError(name)


SCRATCH = {'tail': (6,)}                  # registers the documentation allows the far form to clobber
