"""RV32I / M / A / Zicsr / Zifencei encoding tables and field extractors.

Transcribed from "The RISC-V Instruction Set Manual, Volume I: Unprivileged
ISA" (chapter "RV32/64G Instruction Set Listings" and the base-format figure),
NOT from the repository.  Operand *order* of each mnemonic is the one
docs/instruction_reference.rst documents for the text front end and the direct
encoder call (e.g. `sw rs1, rs2, imm`, `fence succ, pred`, `csrrw rd, rs1, csr`).

Everything is generic over an ops object (spec/ops.py): PY for concrete
words, BV for z3 bit-vectors, INT for unbounded legality predicates.
"""

# ---------------------------------------------------------------- extractors
# (manual: "Base instruction formats" figure, immediates "produced by each format")

def opcode(o, w): return o.bits(w, 6, 0)
def rd(o, w): return o.bits(w, 11, 7)
def funct3(o, w): return o.bits(w, 14, 12)
def rs1(o, w): return o.bits(w, 19, 15)
def rs2(o, w): return o.bits(w, 24, 20)
def funct7(o, w): return o.bits(w, 31, 25)
def funct5(o, w): return o.bits(w, 31, 27)
def aq(o, w): return o.bits(w, 26, 26)
def rl(o, w): return o.bits(w, 25, 25)
def imm12(o, w): return o.bits(w, 31, 20)
def immI(o, w): return o.sext(o.bits(w, 31, 20), 12)
def immS(o, w): return o.sext(o.or_(o.shl(o.bits(w, 31, 25), 5), o.bits(w, 11, 7)), 12)


def immB(o, w):
    return o.sext(o.or_(o.shl(o.bits(w, 31, 31), 12), o.shl(o.bits(w, 7, 7), 11),
                        o.shl(o.bits(w, 30, 25), 5), o.shl(o.bits(w, 11, 8), 1)), 13)


def immU(o, w): return o.bits(w, 31, 12)


def immJ(o, w):
    return o.sext(o.or_(o.shl(o.bits(w, 31, 31), 20), o.shl(o.bits(w, 19, 12), 12),
                        o.shl(o.bits(w, 20, 20), 11), o.shl(o.bits(w, 30, 21), 1)), 21)


def fm(o, w): return o.bits(w, 31, 28)
def pred(o, w): return o.bits(w, 27, 24)
def succ(o, w): return o.bits(w, 23, 20)


# ---------------------------------------------------------------- tables
# mnemonic -> (format, opcode, funct3, extra)
#   R: extra = funct7          I: extra = None         S/B: None        U/J: funct3 None
#   SH: shift-immediate (I-format specialisation): extra = imm[11:5]
#   IE: fixed I word: extra = (rd, rs1, imm12)
#   F: fence            A: extra = funct5      AL: lr.w (rs2 = 0)
#   CSR / CSRI
OP, OP_IMM, LOAD, STORE, BRANCH = 0b0110011, 0b0010011, 0b0000011, 0b0100011, 0b1100011
MISC_MEM, SYSTEM, AMO = 0b0001111, 0b1110011, 0b0101111

TABLE = {
    'lui': ('U', 0b0110111, None, None),
    'auipc': ('U', 0b0010111, None, None),
    'jal': ('J', 0b1101111, None, None),
    'jalr': ('IJ', 0b1100111, 0b000, None),
    'beq': ('B', BRANCH, 0b000, None), 'bne': ('B', BRANCH, 0b001, None),
    'blt': ('B', BRANCH, 0b100, None), 'bge': ('B', BRANCH, 0b101, None),
    'bltu': ('B', BRANCH, 0b110, None), 'bgeu': ('B', BRANCH, 0b111, None),
    'lb': ('I', LOAD, 0b000, None), 'lh': ('I', LOAD, 0b001, None), 'lw': ('I', LOAD, 0b010, None),
    'lbu': ('I', LOAD, 0b100, None), 'lhu': ('I', LOAD, 0b101, None),
    'sb': ('S', STORE, 0b000, None), 'sh': ('S', STORE, 0b001, None), 'sw': ('S', STORE, 0b010, None),
    'addi': ('I', OP_IMM, 0b000, None), 'slti': ('I', OP_IMM, 0b010, None), 'sltiu': ('I', OP_IMM, 0b011, None),
    'xori': ('I', OP_IMM, 0b100, None), 'ori': ('I', OP_IMM, 0b110, None), 'andi': ('I', OP_IMM, 0b111, None),
    'slli': ('SH', OP_IMM, 0b001, 0b0000000), 'srli': ('SH', OP_IMM, 0b101, 0b0000000),
    'srai': ('SH', OP_IMM, 0b101, 0b0100000),
    'add': ('R', OP, 0b000, 0b0000000), 'sub': ('R', OP, 0b000, 0b0100000), 'sll': ('R', OP, 0b001, 0b0000000),
    'slt': ('R', OP, 0b010, 0b0000000), 'sltu': ('R', OP, 0b011, 0b0000000), 'xor': ('R', OP, 0b100, 0b0000000),
    'srl': ('R', OP, 0b101, 0b0000000), 'sra': ('R', OP, 0b101, 0b0100000), 'or': ('R', OP, 0b110, 0b0000000),
    'and': ('R', OP, 0b111, 0b0000000),
    'fence': ('F', MISC_MEM, 0b000, None),
    'fence.i': ('IE', MISC_MEM, 0b001, (0, 0, 0)),
    'ecall': ('IE', SYSTEM, 0b000, (0, 0, 0)),
    'ebreak': ('IE', SYSTEM, 0b000, (0, 0, 1)),
    'csrrw': ('CSR', SYSTEM, 0b001, None), 'csrrs': ('CSR', SYSTEM, 0b010, None), 'csrrc': ('CSR', SYSTEM, 0b011, None),
    'csrrwi': ('CSRI', SYSTEM, 0b101, None), 'csrrsi': ('CSRI', SYSTEM, 0b110, None), 'csrrci': ('CSRI', SYSTEM, 0b111, None),
    'mul': ('R', OP, 0b000, 0b0000001), 'mulh': ('R', OP, 0b001, 0b0000001), 'mulhsu': ('R', OP, 0b010, 0b0000001),
    'mulhu': ('R', OP, 0b011, 0b0000001), 'div': ('R', OP, 0b100, 0b0000001), 'divu': ('R', OP, 0b101, 0b0000001),
    'rem': ('R', OP, 0b110, 0b0000001), 'remu': ('R', OP, 0b111, 0b0000001),
    'lr.w': ('AL', AMO, 0b010, 0b00010), 'sc.w': ('A', AMO, 0b010, 0b00011),
    'amoswap.w': ('A', AMO, 0b010, 0b00001), 'amoadd.w': ('A', AMO, 0b010, 0b00000),
    'amoxor.w': ('A', AMO, 0b010, 0b00100), 'amoand.w': ('A', AMO, 0b010, 0b01100),
    'amoor.w': ('A', AMO, 0b010, 0b01000), 'amomin.w': ('A', AMO, 0b010, 0b10000),
    'amomax.w': ('A', AMO, 0b010, 0b10100), 'amominu.w': ('A', AMO, 0b010, 0b11000),
    'amomaxu.w': ('A', AMO, 0b010, 0b11100),
}
assert len(TABLE) == 66

# operand roles per format, in the documented operand order
ROLES = {
    'R': ('rd', 'rs1', 'rs2'),
    'SH': ('rd', 'rs1', 'shamt'),
    'I': ('rd', 'rs1', 'immI'),
    'IJ': ('rd', 'rs1', 'immIJ'),
    'S': ('rs1', 'rs2', 'immS'),
    'B': ('rs1', 'rs2', 'immB'),
    'U': ('rd', 'immU'),
    'J': ('rd', 'immJ'),
    'F': ('succ', 'pred'),
    'IE': (),
    'CSR': ('rd', 'rs1', 'csr'),
    'CSRI': ('rd', 'uimm', 'csr'),
    'A': ('rd', 'rs1', 'rs2', 'aq', 'rl'),
    'AL': ('rd', 'rs1', 'aq', 'rl'),
}
REG_ROLES = {'rd', 'rs1', 'rs2', 'shamt', 'uimm'}      # operands written in a register slot (value 0..31)


def roles(m):
    return ROLES[TABLE[m][0]]


def legal_operand(o, role, v):
    """legal set of one operand (v: canonical integer value; registers: their number)"""
    if role in REG_ROLES:
        return o.and_(o.le(0, v), o.le(v, 31))
    if role in ('immI', 'immS', 'csr'):
        return o.and_(o.le(-2048, v), o.le(v, 2047))
    if role == 'immIJ':      # the repository documents jalr's immediate as "12-bit MO2" (multiple of two)
        return o.and_(o.le(-2048, v), o.le(v, 2047), o.divisible(v, 2))
    if role == 'immB':
        return o.and_(o.le(-4096, v), o.le(v, 4095), o.divisible(v, 2))
    if role == 'immU':       # 20-bit field, signed or unsigned spelling of the same field
        return o.and_(o.le(-(1 << 19), v), o.le(v, (1 << 20) - 1))
    if role == 'immJ':
        return o.and_(o.le(-(1 << 20), v), o.le(v, (1 << 20) - 1), o.divisible(v, 2))
    if role in ('succ', 'pred'):
        return o.and_(o.le(0, v), o.le(v, 15))
    if role in ('aq', 'rl'):
        return o.or_b(o.eq(v, 0), o.eq(v, 1))
    raise KeyError(role)


def legal(o, m, ops):
    return o.and_(*[legal_operand(o, r, v) for r, v in zip(roles(m), ops)])


def canon(o, role, v):
    """canonical form of an operand: two spellings of one field are one operand"""
    if role == 'immU':
        return o.mod2n(v, 20)
    if role == 'csr':
        return o.mod2n(v, 12)
    return v


def matches(o, m, w, ops):
    """word `w` decodes, under the manual, to mnemonic `m` with (canonical) operands `ops`"""
    fmt, opc, f3, extra = TABLE[m]
    c = [o.eq(opcode(o, w), opc), o.eq(o.bits(w, 63, 32), 0) if o.symbolic else (0 <= w < 2 ** 32)]
    if f3 is not None:
        c.append(o.eq(funct3(o, w), f3))
    d = dict(zip(roles(m), ops))
    if fmt == 'R':
        c += [o.eq(funct7(o, w), extra), o.eq(rd(o, w), d['rd']), o.eq(rs1(o, w), d['rs1']), o.eq(rs2(o, w), d['rs2'])]
    elif fmt == 'SH':
        c += [o.eq(funct7(o, w), extra), o.eq(rd(o, w), d['rd']), o.eq(rs1(o, w), d['rs1']), o.eq(rs2(o, w), d['shamt'])]
    elif fmt == 'I':
        c += [o.eq(rd(o, w), d['rd']), o.eq(rs1(o, w), d['rs1']), o.eq(immI(o, w), d['immI'])]
    elif fmt == 'IJ':
        c += [o.eq(rd(o, w), d['rd']), o.eq(rs1(o, w), d['rs1']), o.eq(immI(o, w), d['immIJ'])]
    elif fmt == 'S':
        c += [o.eq(rs1(o, w), d['rs1']), o.eq(rs2(o, w), d['rs2']), o.eq(immS(o, w), d['immS'])]
    elif fmt == 'B':
        c += [o.eq(rs1(o, w), d['rs1']), o.eq(rs2(o, w), d['rs2']), o.eq(immB(o, w), d['immB'])]
    elif fmt == 'U':
        c += [o.eq(rd(o, w), d['rd']), o.eq(immU(o, w), canon(o, 'immU', d['immU']))]
    elif fmt == 'J':
        c += [o.eq(rd(o, w), d['rd']), o.eq(immJ(o, w), d['immJ'])]
    elif fmt == 'F':
        c += [o.eq(fm(o, w), 0), o.eq(pred(o, w), d['pred']), o.eq(succ(o, w), d['succ']),
              o.eq(rd(o, w), 0), o.eq(rs1(o, w), 0)]
    elif fmt == 'IE':
        c += [o.eq(rd(o, w), extra[0]), o.eq(rs1(o, w), extra[1]), o.eq(imm12(o, w), extra[2])]
    elif fmt == 'CSR':
        c += [o.eq(rd(o, w), d['rd']), o.eq(rs1(o, w), d['rs1']), o.eq(imm12(o, w), canon(o, 'csr', d['csr']))]
    elif fmt == 'CSRI':
        c += [o.eq(rd(o, w), d['rd']), o.eq(rs1(o, w), d['uimm']), o.eq(imm12(o, w), canon(o, 'csr', d['csr']))]
    elif fmt == 'A':
        c += [o.eq(funct5(o, w), extra), o.eq(aq(o, w), d['aq']), o.eq(rl(o, w), d['rl']),
              o.eq(rd(o, w), d['rd']), o.eq(rs1(o, w), d['rs1']), o.eq(rs2(o, w), d['rs2'])]
    elif fmt == 'AL':
        c += [o.eq(funct5(o, w), extra), o.eq(aq(o, w), d['aq']), o.eq(rl(o, w), d['rl']),
              o.eq(rd(o, w), d['rd']), o.eq(rs1(o, w), d['rs1']), o.eq(rs2(o, w), 0)]
    else:
        raise KeyError(fmt)
    return o.and_(*c)


def decode(w):
    """concrete decoder: word -> (mnemonic, canonical operand tuple) or None.  Independent oracle for replays
    and the bounded tier."""
    from .ops import PY as o
    if not (0 <= w < 2 ** 32):
        return None
    found = []
    for m, (fmt, opc, f3, extra) in TABLE.items():
        if opcode(o, w) != opc:
            continue
        if f3 is not None and funct3(o, w) != f3:
            continue
        if fmt == 'R':
            if funct7(o, w) != extra:
                continue
            ops = (rd(o, w), rs1(o, w), rs2(o, w))
        elif fmt == 'SH':
            if funct7(o, w) != extra:
                continue
            ops = (rd(o, w), rs1(o, w), rs2(o, w))
        elif fmt in ('I', 'IJ'):
            ops = (rd(o, w), rs1(o, w), immI(o, w))
        elif fmt == 'S':
            ops = (rs1(o, w), rs2(o, w), immS(o, w))
        elif fmt == 'B':
            ops = (rs1(o, w), rs2(o, w), immB(o, w))
        elif fmt == 'U':
            ops = (rd(o, w), immU(o, w))
        elif fmt == 'J':
            ops = (rd(o, w), immJ(o, w))
        elif fmt == 'F':
            if fm(o, w) != 0 or rd(o, w) != 0 or rs1(o, w) != 0:
                continue
            ops = (succ(o, w), pred(o, w))
        elif fmt == 'IE':
            if (rd(o, w), rs1(o, w), imm12(o, w)) != extra:
                continue
            ops = ()
        elif fmt in ('CSR', 'CSRI'):
            ops = (rd(o, w), rs1(o, w), imm12(o, w))
        elif fmt == 'A':
            if funct5(o, w) != extra:
                continue
            ops = (rd(o, w), rs1(o, w), rs2(o, w), aq(o, w), rl(o, w))
        elif fmt == 'AL':
            if funct5(o, w) != extra or rs2(o, w) != 0:
                continue
            ops = (rd(o, w), rs1(o, w), aq(o, w), rl(o, w))
        found.append((m, ops))
    if len(found) != 1:
        return None if not found else ('AMBIGUOUS', tuple(found))
    return found[0]


def distinguishable(m1, m2):
    """two table rows can never match the same word (finite check used by the injectivity lemma)"""
    a, b = TABLE[m1], TABLE[m2]
    if a[1] != b[1]:
        return True
    if a[2] is not None and b[2] is not None and a[2] != b[2]:
        return True
    fa, fb = a[0], b[0]
    if fa in ('R', 'SH') and fb in ('R', 'SH'):
        return a[3] != b[3]
    if fa in ('A', 'AL') and fb in ('A', 'AL'):
        return a[3] != b[3]
    if fa == 'IE' and fb == 'IE':
        return a[3] != b[3]
    return False
