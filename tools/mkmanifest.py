#!/usr/bin/env python3
"""Regenerates MANIFEST.json from the table below (kept here so the manifest is always schema-valid)."""
import json
import os

VERIF = os.path.dirname(os.path.dirname(os.path.abspath(__file__)))
BASE = json.load(open('/root/.vp/BASELINE.json')) if os.path.exists('/root/.vp/BASELINE.json') else {}

CLAIMED = {
    'C01': dict(cat='proof', technique='contract-based deductive verification: VCs generated from the AST of the real encoders (asm.py) against RISC-V manual decode contracts, discharged by z3 (INT + BV back ends)',
                text='Per-mnemonic contracts on the real format encoders and partial bindings: returns <=> operands legal (unbounded integers), result decodes under the manual to the same mnemonic and operands, injectivity lemma; lookup_register body against its contract. All operand tuples, no enumeration.',
                note='Trusted: CPython semantics of the modelled subset (cross-checked against CPython on guard corners every run), c_uint32 wrap, spec transcription (spec/rv32.py), z3. Text front end (lexer/parser) is covered by a bounded differential stand-in only.',
                ref='DESIGN 4 C01'),
    'C02': dict(cat='proof', technique='contract-based deductive verification: forward decode VCs per c.* mnemonic plus reverse VC over all 16-bit halfwords per RVC form, z3',
                text='Forward: every accepted tuple yields a legal non-hint non-reserved halfword that decodes to it; reverse: every legal halfword of each of the 27 forms is returned by the real encoder on its canonical operands (forall h as a 16-bit vector).',
                note='Trusted: as C01; spec/rvc.py transcription of the RVC quadrant tables.', ref='DESIGN 4 C02'),
    'C07': dict(cat='proof', technique='contract-based deductive verification over unbounded integers (z3 Int) of sign_extend / relocate_hi / relocate_lo / Hi.eval / Lo.eval',
                text='%hi fits 20 bits, %lo fits signed 12 bits, (hi<<12)+lo == v mod 2**32 for every integer v (no width bound); consumer encoders accept every result; pair lemma for lui/auipc + addi/load/store/jalr.',
                note='Trusted: CPython integer semantics as encoded (floor shifts, masks), z3.', ref='DESIGN 4 C07'),
}

NOT_YET = {}


def main():
    props = [json.loads(l) for l in open(os.path.join(VERIF, 'properties.jsonl'))]
    checks = []
    na = []
    for p in props:
        pid = p['id']
        if pid in CLAIMED:
            c = CLAIMED[pid]
            checks.append({
                'property_id': pid,
                'quick_cmd': './check %s --tier quick' % pid,
                'thorough_cmd': './check %s --tier thorough' % pid,
                'evidence_file': 'evidence/%s.json' % pid,
                'replay_cmd_template': './check %s --replay {path}' % pid,
                'engine': 'pyvc',
                'level_claimed': {'category': c['cat'], 'text': c['text'], 'design_ref': c['ref']},
                'level_note': c['note'],
                'technique': c['technique'],
            })
        else:
            na.append({'property_id': pid, 'reason': NOT_YET.get(pid, 'check not built yet in this session (work in progress; see DESIGN.md section 4 for the plan)')})
    m = {
        'version': 1,
        'setup_cmd': './setup.sh',
        'hooks': {
            'guard': 'BRONZEBEARD_VERIF',
            'enable': 'none needed: contracts are sidecar files keyed by qualified name and the bounded tier patches module attributes at run time; no source hook exists',
            'baseline_off_cmd': BASE.get('cmd', 'cd /repo && /venv/bin/python -m pytest -q'),
            'source_commits': [],
            'add_only': True,
        },
        'engines': [{'name': 'pyvc', 'path': 'pyvc/', 'serves_properties': sorted(CLAIMED),
                     'kind_free_text': 'VC generator: symbolic AST interpreter over the real /repo source (re-read every run), sidecar contracts, z3/cvc5 discharge, counter-model replay on the real code'}],
        'checks': checks,
        'notes': 'Exit codes: 0 held, 1 violation (VIOLATION line), 2 undecided, 3 machinery error. KNOWN_FINDINGS.txt lists recorded findings and fixed defects.',
        'not_applicable': na,
    }
    json.dump(m, open(os.path.join(VERIF, 'MANIFEST.json'), 'w'), indent=1)


if __name__ == '__main__':
    main()
