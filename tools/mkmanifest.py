#!/usr/bin/env python3
"""Regenerates MANIFEST.json from the table below (kept here so the manifest is always schema-valid)."""
import json
import os

VERIF = os.path.dirname(os.path.dirname(os.path.abspath(__file__)))
BASE = json.load(open('/root/.vp/BASELINE.json')) if os.path.exists('/root/.vp/BASELINE.json') else {}

CLAIMED = {
    'C01': dict(cat='proof', technique='contract-based deductive verification: VCs generated from the AST of the real encoders (asm.py) against RISC-V manual decode contracts, discharged by z3 (INT + BV back ends)',
                text='Per-mnemonic contracts on the real format encoders and partial bindings: returns <=> operands legal (unbounded integers), result decodes under the manual to the same mnemonic and operands, injectivity lemma; lookup_register body against its contract; parse_item hands the encoder the operand tokens in documented order (symbolic tokens; a name as branch target is %offset, a number an offset, nothing else is wrapped); resolve_immediates bakes exactly the expression value, resolve_register_aliases exactly the constant. All operand tuples, no enumeration.',
                note='Trusted: CPython semantics of the modelled subset (cross-checked against CPython on guard corners every run), c_uint32 wrap, spec transcription (spec/rv32.py), z3. The lexer (regular expressions) is covered by a bounded differential stand-in only.',
                ref='DESIGN 4 C01'),
    'C02': dict(cat='proof', technique='contract-based deductive verification: forward decode VCs per c.* mnemonic plus reverse VC over all 16-bit halfwords per RVC form, z3',
                text='Forward: every accepted tuple yields a legal non-hint non-reserved halfword that decodes to it; reverse: every legal halfword of each of the 27 forms is returned by the real encoder on its canonical operands (forall h as a 16-bit vector).',
                note='Trusted: as C01; spec/rvc.py transcription of the RVC quadrant tables.', ref='DESIGN 4 C02'),
    'C07': dict(cat='proof', technique='contract-based deductive verification over unbounded integers (z3 Int) of sign_extend / relocate_hi / relocate_lo / Hi.eval / Lo.eval',
                text='relocate_hi / relocate_lo: %hi fits 20 bits, %lo fits signed 12 bits, (hi<<12)+lo == v mod 2**32 for every integer v (no width bound); Hi.eval / Lo.eval return that split of the CURRENT inner value for every 32-bit value in its negative or unsigned spelling (-2**31 <= v < 2**32; a refusal outside that range must be an AssemblerError); consumer encoders accept every result; pair lemma for lui/auipc + addi/load/store/jalr; no pass bakes a %hi/%lo computed before the layout is final.',
                note='Trusted: CPython integer semantics as encoded (floor shifts, masks), z3.', ref='DESIGN 4 C07'),
}


def _p(cat, technique, text, note, ref):
    return dict(cat=cat, technique=technique, text=text, note=note, ref=ref)


T_DED = 'contract-based deductive verification: VCs generated from the AST of the real functions (re-read every run) against sidecar contracts, discharged by z3'
CLAIMED.update({
    'C03': _p('proof', T_DED + '; Hoare loop-body step VCs of the five layout passes under the LabelsExact invariant',
              'Loop-body step VCs (no unrolling) of resolve_labels, transform_compressible, transform_pseudo_instructions, resolve_aligns, resolve_immediates for an arbitrary item of every Item class: position tracks emitted sizes, every label stays exact, immediates are evaluated at the item own offset; Offset/Position/Hi/Lo eval contracts; encoder decode contracts of all control transfers; expansion effect lemmas of j/jal/call/tail/branches. assemble() itself is checked against the protocol contracts of the passes (typestate: every pass finds established what its contract assumes, passes run to completion, tables and item stream threaded unchanged).',
              'Trusted: CPython semantics of the modelled subset, label names distinct, align N >= 1, spec transcription, z3. Composition of the passes in assemble() and the lexer/parser are covered by the bounded stand-in (generated programs, targets recomputed from per-item chunks).', 'DESIGN 4 C03'),
    'C04': _p('proof', T_DED + '; per-rule VCs over the real criteria table and construction chain against the RVC expansion spec',
              'For every 32-bit instruction class/mnemonic and every path of the real first-match criteria evaluation: the constructed c.* item expands (RVC tables) to the original instruction operand by operand, its operands are legal for the encoder, non-instruction items are untouched, the jalr half of a far call is never compressed; assemble() itself is checked against the protocol contracts of the passes (typestate: every pass finds established what its contract assumes, passes run to completion, tables and item stream threaded unchanged).',
              'Literal operands (decision-time value is final); label-dependent immediates rely on C03 step VCs plus the bounded both-modes comparison. Trusted: spec/rvc.py, spec/step.py, z3.', 'DESIGN 4 C04'),
    'C05': _p('proof', T_DED + '; effect lemmas of every pseudo-instruction expansion against reference RV32 step semantics on an arbitrary register file (BV) and over unbounded integers for li',
              'Every path of every expansion branch of the real transform_pseudo_instructions: constructed instructions executed by the reference step semantics equal the documented effect for all register files, registers choices incl. x0 and rd = rs, all li values.',
              'Premise for li: operand value is the same at both instructions. Trusted: spec/step.py and spec/pseudo.py transcriptions, C07 (in the cone), z3. With -c: bounded only.', 'DESIGN 4 C05'),
    'C06': _p('proof', T_DED + '; exceptional postconditions raises ValueError <=> operand not legal, both directions, unbounded integers',
              'All 93 mnemonics: every returning path of the real encoder implies legal(t), every raising path raises ValueError and implies not legal(t); resolve_instructions converts to AssemblerError with the item line and emits nothing.',
              'Legal sets from the manual and, where the repository documents narrower or dual spellings (jalr even, CSR slot signed, U dual spelling), from its documentation. Front end bounded.', 'DESIGN 4 C06'),
    'C08': _p('proof', T_DED + '; eval contracts of Offset/Position/Hi/Lo + resolve_immediates step VC + LabelsExact chain',
              'The value baked into any item (instruction, dw, pack) is its expression evaluated once at the item own output offset in ChainMap(constants, labels) with an exact label table; Offset = L - position, Position = base + L.',
              'A-EVAL: a bare label in an Arithmetic expression goes through Python eval (assumed: name lookup). Earlier evaluations (li/call size choice, compression predicates) only select shapes.', 'DESIGN 4 C08'),
    'C09': _p('proof', T_DED + '; Align.resolution_size for symbolic N, emit-length = size() per item kind and pass, append-only frames',
              'resolution_size returns the unique minimal padding for symbolic N >= 1; every emission pass produces exactly size() bytes per item; passes only append in order; resolve_blobs concatenates.',
              'A-STRUCT (struct.pack lengths), sequence lengths unrolled 0..3 with a fully symbolic per-value body, filesystem external.', 'DESIGN 4 C09'),
    'C12': _p('other', T_DED + ' for literal operands (exception freedom of the criteria predicates, constructed operand evaluates, accept => accept); bounded differential for label-dependent operands',
              'Proof for literal operands; for label-dependent immediates the property is genuinely violated on this tree (two recorded KNOWN-FINDINGs), any other failing program is reported.',
              'See KNOWN_FINDINGS.txt; bounded part: every generated program accepted without -c re-assembled with -c.', 'DESIGN 4 C12'),
    'C20': _p('proof', T_DED + '; eligibility VCs: a kept 32-bit item is not the expansion of any legal non-hint c.X; per-step non-growth',
              'For every class/mnemonic and every path of the real criteria evaluation that keeps the item: no legal non-hint RVC instruction expands to it (literal operands, legal instruction); every step new size <= old size with labels moved down by the difference.',
              'Cross-mode comparison (lengths, labels) is bounded; li over label arithmetic can violate it (see DESIGN 6).', 'DESIGN 4 C20'),
})

CLAIMED.update({
    'C10': _p('other', T_DED + ' (A-STRUCT relative): format/range VCs of the data directives over unbounded values, emit-size VCs, read_lines include_bytes rewrite; bounded for codecs and files',
              'Proof: the struct code chosen for db/dh/dw/dd and bytes/shorts/ints/longs/longlongs is little-endian, of the documented width and accepts exactly -2**(8w-1) <= v < 2**(8w); refusals are AssemblerErrors; sizes equal emitted lengths; include_bytes carries the looked-up path. Bounded: strings over code points / escapes, include_bytes trees with decoys.',
              'A-STRUCT (struct.pack and int.to_bytes of 1/2/4/8 bytes), codecs and the filesystem are external; sequence lengths unrolled 0..3; a value that bypasses both encoders leaves the path undecided.', 'DESIGN 4 C10'),
    'C11': _p('other', T_DED + ' for resolve_constants / resolve_register_aliases / constructed operand expressions / register-alias lemma (exhaustive); bounded for the meaning of expression texts (Python eval)',
              'Proof of the sequential constant environment, alias replacement, operand-type obligations, alias lemma over all 97 register spellings; bounded expression trees and substitution in every operand position, both modes. Five recorded KNOWN-FINDINGs (character literals broken by the lexer / inside expressions).',
              'A-EVAL: expression arithmetic is Python eval; see KNOWN_FINDINGS.txt.', 'DESIGN 4 C11'),
    'C13': _p('other', T_DED + ' for register spellings and the imm(reg) vs reg, imm parse paths (symbolic parse_item); bounded differential re-rendering for the lexer freedoms',
              'Proof: register table exhaustive + lookup_register contract; parse_item builds equal items for both offset syntaxes and hands operands to the encoders in documented order for all 93 mnemonics. Bounded: every generated program re-rendered with the documented freedoms per line and operand.',
              'lex_tokens / read_lines are regular-expression and string code: not modelled, bounded only.', 'DESIGN 4 C13'),
    'C14': _p('other', T_DED + ' of read_lines (Hoare step on an arbitrary line, filesystem as uninterpreted path constructors, recursion by contract) + cli_main path handling; bounded include trees x working directories',
              'Proof: splice equation, first-match lookup over include_dirs + the including file directory, path provenance (cwd only for string sources), passes never inspect Line fields. Bounded: trees of depth 0-3 through API and CLI from 3 working directories against the hand-spliced file.',
              'String predicates on raw lines uninterpreted; include cycles diverge (partial correctness).', 'DESIGN 4 C14'),
    'C15': _p('other', T_DED + ': exceptional frames of all 13 passes (every raising path is AssemblerError with the item line); bounded fault planting for the front end',
              'Proof over every pass and Item class with partial operations modelled (struct, int(), eval failures, register lookups); bounded: 60 faulty lines in 6 classes planted at positions, include depths 0-3, both modes.',
              'Escapes outside the property list (operand count, bad pack format, align 0) are observations. lex/parse/read_lines bounded.', 'DESIGN 4 C15'),
    'C16': _p('other', T_DED + ': frame (modifies / determinism) obligations over the AST of all 243 functions + dynamic mutation frames from the pass step VCs; bounded call histories, file-replacement histories and hash seeds',
              'Proof that no function writes module-level state, uses hidden state (global/nonlocal, mutable default, memoising or unknown decorator) or a nondeterministic primitive, or iterates a set; bounded interleavings vs fresh processes, files replaced between calls (same length and mtime), 4-8 hash seeds, table digests.',
              'Flow-insensitive alias analysis (sufficient condition); Python eval can write a constant via := (observation).', 'DESIGN 4 C16'),
    'C17': _p('other', T_DED + ': effect-ordering obligations on every path of the real cli_main with arbitrary option values and assemble under contract; bounded subprocess runs',
              'Proof: writes only after assemble returned, no failure exit after a write, written content is the assembled bytes / label lines / bin2hex arguments. Bounded: entry point in subprocesses over the option lattice with faults in every pass, pre-existing files, independent Intel HEX reader.',
              'intelhex.bin2hex and argparse are dependencies (assumed); I/O errors of the writes themselves out of scope.', 'DESIGN 4 C17'),
    'C18': _p('other', T_DED + ' relative to an ASSUMED DfuSe device contract: request builders, sleep contract, loop-rule VCs of the erase/write loops for symbolic firmware length; bounded simulated device',
              'Proof (cli_main against the callee contract of dfu_get_status, itself proved): request bytes, poll delay waited on every GETSTATUS, page arithmetic and address bounds for all lengths and variants, chunk = k-th page of the zero-padded image, no request while the last reported state is dfuDNBUSY. Bounded: real cli_main against a simulated DfuSe device (NOR programming semantics on a flash that holds an older image, firmware contents with blank pages).',
              'Device behaviour is an assumption about hardware; polling termination not proved.', 'DESIGN 4 C18'),
    'C19': _p('other', T_DED + ': effect ordering (size guard dominates the first request) and loop-body obligation (an iteration completes only with STATUS_OK; one left by break after an error status must end in a failure exit) on the real dfu.cli_main; bounded error injections',
              'Proof on every path with arbitrary GETSTATUS responses; bounded single/double error-status injections and oversize lengths against the simulated device.',
              'Assumed device contract; a raw USB error also ends the run non-zero.', 'DESIGN 4 C19'),
})

NOT_YET = {}


def main():
    props = [json.loads(l) for l in open(os.path.join(VERIF, 'properties.jsonl'))]
    checks = []
    na = []
    for p in props:
        pid = p['id']
        if pid in CLAIMED:
            c = CLAIMED[pid]
            checks.append({
                'property_id': pid,
                'quick_cmd': './check %s --tier quick' % pid,
                'thorough_cmd': './check %s --tier thorough' % pid,
                'evidence_file': 'evidence/%s.json' % pid,
                'replay_cmd_template': './check %s --replay {path}' % pid,
                'engine': 'pyvc',
                'level_claimed': {'category': c['cat'], 'text': c['text'], 'design_ref': c['ref']},
                'level_note': c['note'],
                'technique': c['technique'],
            })
        else:
            na.append({'property_id': pid, 'reason': NOT_YET.get(pid, 'check not built yet in this session (work in progress; see DESIGN.md section 4 for the plan)')})
    m = {
        'version': 1,
        'setup_cmd': './setup.sh',
        'hooks': {
            'guard': 'BRONZEBEARD_VERIF',
            'enable': 'none needed: contracts are sidecar files keyed by qualified name and the bounded tier patches module attributes at run time; no source hook exists',
            'baseline_off_cmd': BASE.get('cmd', 'cd /repo && /venv/bin/python -m pytest -q'),
            'source_commits': [],
            'add_only': True,
        },
        'engines': [{'name': 'pyvc', 'path': 'pyvc/', 'serves_properties': sorted(CLAIMED),
                     'kind_free_text': 'VC generator: symbolic AST interpreter over the real /repo source (re-read every run), sidecar contracts, z3/cvc5 discharge, counter-model replay on the real code'}],
        'checks': checks,
        'notes': 'Exit codes: 0 held, 1 violation (VIOLATION line), 2 undecided, 3 machinery error. KNOWN_FINDINGS.txt lists recorded findings and fixed defects.',
        'not_applicable': na,
    }
    json.dump(m, open(os.path.join(VERIF, 'MANIFEST.json'), 'w'), indent=1)


if __name__ == '__main__':
    main()
