import sys, time
sys.path.insert(0,'/verif')
from pyvc.driver import Ctx
from pyvc import vc as V
from contracts import reader
ctx = Ctx('C14','quick',0)
t=time.time()
reader.task_reader(ctx)
print(len(ctx.obligations), round(time.time()-t,1), ctx.errors[:3], ctx.undecided[:5])
V.discharge(ctx.obligations, jobs=1)
for o in ctx.obligations:
    if o.result!='valid': print(o.name, o.result, o.meta.get('what'))
