import sys
sys.path.insert(0,'/verif')
from pyvc.driver import Ctx
from pyvc import vc as V
from contracts import relocate as R
from contracts.encoders import Harness
ctx = Ctx('C07','quick',0)
h = Harness(ctx)
R.obligations_hi_lo_eval(ctx, h)
V.discharge(ctx.obligations, jobs=1)
for o in ctx.obligations: print(o.name, o.result, o.model)
print(ctx.undecided, ctx.errors)
