import sys, time, faulthandler
faulthandler.dump_traceback_later(120, exit=True)
sys.path.insert(0,'/verif')
from pyvc.driver import Ctx
from pyvc import vc as V
from contracts import dfu
ctx = Ctx(sys.argv[1],'quick',0)
t=time.time()
dfu.task_dfu(ctx)
print(len(ctx.obligations), round(time.time()-t,1), ctx.samples, ctx.errors[:3], ctx.undecided[:3])
V.discharge(ctx.obligations, jobs=16)
from collections import Counter
print(Counter(o.result for o in ctx.obligations))
seen=set()
for o in ctx.obligations:
    if o.result!='valid':
        k=o.name.split('/',2)[-1]
        if k in seen: continue
        seen.add(k); print(o.name, o.result, o.model)
