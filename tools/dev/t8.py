import sys, time, faulthandler
faulthandler.dump_traceback_later(40, exit=True)
sys.path.insert(0,'/verif')
from pyvc.driver import Ctx
from bounded import cli_runs
ctx = Ctx('C17','quick',0)
t=time.time()
cli_runs.run_all(ctx, 'quick', limit=int(sys.argv[1]))
print(ctx.bounded['evaluations'], time.time()-t)
for v in ctx.violations: print(v.key, v.what[:200])
