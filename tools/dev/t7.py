import sys, time, faulthandler
faulthandler.dump_traceback_later(25, exit=True)
sys.path.insert(0,'/verif')
from pyvc.driver import Ctx
from contracts import cli
from contracts.encoders import Harness
ctx = Ctx('C17','quick',0)
h = Harness(ctx)
cli.obligations_cli(ctx, h)
print(len(ctx.obligations), ctx.samples)
