import sys, time
sys.path.insert(0,'/verif')
from pyvc.driver import Ctx
from bounded import families, runner
ctx = Ctx('C03','quick',int(sys.argv[1]) if len(sys.argv)>1 else 0)
ALL={'concat','size','label','target','decode','value','li','data','modes','eligible'}
t=time.time()
st = runner.run_programs(ctx, families.suite('rand','quick',ctx.seed), 'rand', ALL)
print(st, round(time.time()-t,1))
seen=set()
for v in ctx.violations:
    if v.key in seen: continue
    seen.add(v.key); print('-', v.key, '|', v.what[:300])
