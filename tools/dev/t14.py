import sys
sys.path.insert(0,'/verif')
from pyvc.driver import Ctx
from bounded import purity
ctx = Ctx('C16','quick',0)
purity.include_order(ctx, 'quick')
print(ctx.bounded['evaluations'], [v.what[:200] for v in ctx.violations], ctx.bounded['samples'][:3])
