import sys, time
sys.path.insert(0,'/verif')
from pyvc.driver import Ctx
from bounded import dfu_runs
ctx = Ctx('C19','quick',0)
t=time.time()
dfu_runs.run_all(ctx, 'quick', {'C18','C19'})
print(ctx.bounded['evaluations'], round(time.time()-t,1), ctx.errors[:2])
from collections import Counter
print(Counter(v.key for v in ctx.violations))
for v in ctx.violations[:6]: print(v.key, '|', v.what[:300])
