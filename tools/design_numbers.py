#!/usr/bin/env python3
"""Prints, from the evidence files of the last run, the numbers quoted in DESIGN 11.3 (per property: tier, obligations, functions
under contract, solver time, bounded evaluations, undecided)."""
import glob
import json
import os

VERIF = os.path.dirname(os.path.dirname(os.path.abspath(__file__)))
print('| id | tier of the last run | obligations discharged | functions under contract | solver time | bounded evaluations (distinct non-trivial) |')
print('|----|------|------|------|------|------|')
for f in sorted(glob.glob(os.path.join(VERIF, 'evidence', 'C??.json'))):
    e = json.load(open(f))
    c = e['coverage']
    fu = c.get('functions_under_contract')
    print('| %s | %s | %s / %s | %s | %.1f s | %s (%s) |' % (e['property_id'], e['tier'], c.get('discharged'), c.get('obligations'),
                                                            len(fu) if isinstance(fu, list) else fu, c.get('solver_time_s', 0.0),
                                                            c.get('evaluations'), c.get('distinct_nontrivial')))
