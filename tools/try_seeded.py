#!/usr/bin/env python3
"""Confirm and evaluate a seeded change written by an independent sub-agent.

  tools/try_seeded.py import <prop> <worktree>      copy SEEDED/{patch.diff,demo.py,notes.md} to seeded/<name>/, confirm it
                                                    (tests pass with it, demo fails with it and passes without), write meta.json
  tools/try_seeded.py run <name> [props...]         run the checks of the listed properties (default: the one it breaks)
                                                    against a scratch copy of /repo with the patch applied

Nothing is ever applied to /repo itself: a scratch git worktree of /repo's HEAD is created under $TMPDIR and removed."""
import json
import os
import shutil
import subprocess
import sys
import tempfile

VERIF = os.path.dirname(os.path.dirname(os.path.abspath(__file__)))
REPO = '/repo'
PY = '/venv/bin/python'


def sh(cmd, cwd=None, env=None, timeout=1800):
    p = subprocess.run(cmd, cwd=cwd, env=env, capture_output=True, text=True, timeout=timeout)
    return p.returncode, p.stdout + p.stderr


def scratch():
    d = tempfile.mkdtemp(prefix='bbseed_')
    wt = os.path.join(d, 'wt')
    rc, out = sh(['git', '-C', REPO, 'worktree', 'add', '--detach', '-q', wt, 'HEAD'])
    assert rc == 0, out
    return d, wt


def drop(d, wt):
    sh(['git', '-C', REPO, 'worktree', 'remove', '--force', wt])
    shutil.rmtree(d, ignore_errors=True)


def confirm(name):
    sd = os.path.join(VERIF, 'seeded', name)
    d, wt = scratch()
    try:
        os.makedirs(os.path.join(wt, 'SEEDED'), exist_ok=True)
        shutil.copy(os.path.join(sd, 'demo.py'), os.path.join(wt, 'SEEDED', 'demo.py'))
        env = dict(os.environ, PYTHONDONTWRITEBYTECODE='1')
        env.pop('PYTHONPATH', None)
        rc0, out0 = sh([PY, 'SEEDED/demo.py'], cwd=wt, env=env)
        rc, out = sh(['git', 'apply', os.path.join(sd, 'patch.diff')], cwd=wt)
        if rc != 0:
            return {'applies': False, 'detail': out[-400:]}
        rct, outt = sh([PY, '-m', 'pytest', '-q', '-p', 'no:cacheprovider', '-x'], cwd=wt, env=env)
        rc1, out1 = sh([PY, 'SEEDED/demo.py'], cwd=wt, env=env)
        return {'applies': True, 'tests_pass_with_change': rct == 0, 'tests_tail': outt.strip().splitlines()[-1] if outt.strip() else '',
                'demo_without_change_exit': rc0, 'demo_with_change_exit': rc1, 'demo_with_change_tail': out1[-500:],
                'confirmed': rct == 0 and rc0 == 0 and rc1 != 0}
    finally:
        drop(d, wt)


def cmd_import(prop, worktree, name=None):
    name = name or prop
    sd = os.path.join(VERIF, 'seeded', name)
    os.makedirs(sd, exist_ok=True)
    for f in ('patch.diff', 'demo.py', 'notes.md'):
        src = os.path.join(worktree, 'SEEDED', f)
        if os.path.exists(src):
            shutil.copy(src, os.path.join(sd, f))
    if not os.path.exists(os.path.join(sd, 'patch.diff')) or os.path.getsize(os.path.join(sd, 'patch.diff')) == 0:
        rc, out = sh(['git', 'diff', '--', 'bronzebeard'], cwd=worktree)
        open(os.path.join(sd, 'patch.diff'), 'w').write(out)
    c = confirm(name)
    meta = {'breaks': prop, 'origin': 'independent sub-agent given only the property text and a scratch worktree',
            'needs_to_manifest': first_para(os.path.join(sd, 'notes.md')), 'confirmed_here': c,
            'what_was_run': ['git apply patch.diff in a scratch worktree of /repo HEAD', 'pytest (954 tests) with the change',
                             'SEEDED/demo.py without and with the change']}
    json.dump(meta, open(os.path.join(sd, 'meta.json'), 'w'), indent=1)
    print(name, json.dumps(c)[:600])
    return c


def first_para(path):
    if not os.path.exists(path):
        return ''
    return open(path).read()[:1500]


def cmd_run(name, props, tier='quick'):
    sd = os.path.join(VERIF, 'seeded', name)
    meta = json.load(open(os.path.join(sd, 'meta.json')))
    props = props or [meta['breaks']]
    d, wt = scratch()
    res = {}
    try:
        rc, out = sh(['git', 'apply', os.path.join(sd, 'patch.diff')], cwd=wt)
        assert rc == 0, out
        for p in props:
            env = dict(os.environ, BRONZEBEARD_REPO=wt, VERIF_EVIDENCE_SUFFIX='.seed', VERIF_REPLAY_DIR=os.path.join(d, 'replays'))
            rc, out = sh([os.path.join(VERIF, 'check'), p, '--tier', tier], cwd=VERIF, env=env)
            lines = [l for l in out.splitlines() if l.startswith(('VIOLATION', 'UNDECIDED', 'CHECK-ERROR'))]
            res[p] = {'exit': rc, 'status': {0: 'held', 1: 'violation', 2: 'undecided', 3: 'error'}.get(rc, str(rc)), 'lines': lines[:4],
                      'by': sorted({('bounded' if 'bounded' in l else 'proof') for l in lines if l.startswith('VIOLATION')})}
            ev = os.path.join(VERIF, 'evidence', p + '.seed.json')
            if os.path.exists(ev):
                os.unlink(ev)
            print('%-28s %s %-10s %s %s' % (name, p, res[p]['status'], ','.join(res[p]['by']), (lines[0][:110] if lines else '')))
    finally:
        drop(d, wt)
    meta.setdefault('checks', {}).update(res)
    json.dump(meta, open(os.path.join(sd, 'meta.json'), 'w'), indent=1)
    return res


if __name__ == '__main__':
    if sys.argv[1] == 'import':
        cmd_import(sys.argv[2], sys.argv[3], sys.argv[4] if len(sys.argv) > 4 else None)
    elif sys.argv[1] == 'run':
        tier = 'quick'
        args = sys.argv[3:]
        if '--tier' in args:
            i = args.index('--tier')
            tier = args[i + 1]
            del args[i:i + 2]
        cmd_run(sys.argv[2], args, tier)
