"""Frame obligations for C16 (purity / determinism) over EVERY function of bronzebeard/asm.py.
DESIGN 4 C16.  Facts decided on the AST of /repo (syntactic-semantic; the alias analysis is flow-insensitive and
errs on the side of reporting):

  F1 modifies   no function assigns to, deletes from, augments, or calls a mutating method on a module-level
                object or a local alias of one; module-level mutable objects escape only into ChainMap positions
                after the first (ChainMap writes go to maps[0]); the only module-level mutation is the import-time
                INSTRUCTIONS.update / KEYWORDS.update block.
  F2 no hidden state   no `global` / `nonlocal`; no mutable default argument; closures capture parameters only;
                       no memoising (or unknown) decorator on a function.
  F3 determinism   no call into random / time / os.environ / os.listdir / id / hash / uuid / datetime;
                no iteration over a set (for-loops, comprehensions, list()/tuple()/sorted-less conversions, join, *-unpacking);
                dict iteration is insertion ordered (A-CPY) and every dict iterated is built in program order.
  F4 dynamic    every mutation observed while the pass bodies / encoders are executed symbolically (contracts/passes.py,
                contracts/emit.py, contracts/encoders.py) hits an object created inside the call or one of the `labels` /
                `constants` arguments - recorded by the interpreter's mutation hook.
  Lemma         F1-F4 => a call's result is a function of its arguments and the file system.
The one hole is Python's eval (an assignment expression in an operand writes into `constants`): confined to the
per-call dict; recorded as an observation."""
import ast

import z3

from pyvc.vc import Obligation

MUTATORS = {'update', 'add', 'append', 'extend', 'remove', 'pop', 'clear', 'setdefault', 'insert', 'sort', 'reverse', 'discard',
            'popitem', '__setitem__', '__delitem__', 'appendleft', 'extendleft'}
NONDET_CALLS = {('random', None), ('time', 'time'), ('time', 'time_ns'), ('time', 'monotonic'), ('time', 'perf_counter'), ('os', 'urandom'),
                ('os', 'listdir'), ('os', 'scandir'), ('os', 'getpid'), ('uuid', None), ('datetime', None), ('secrets', None)}
NONDET_BUILTINS = {'id', 'hash', 'input', 'globals', 'locals', 'vars_'}


def module_level(tree):
    """name -> kind ('dict' | 'set' | 'list' | 'other' | 'func' | 'class') for module-level bindings"""
    out = {}
    for s in tree.body:
        if isinstance(s, ast.Assign):
            for t in s.targets:
                if isinstance(t, ast.Name):
                    v = s.value
                    kind = 'other'
                    if isinstance(v, ast.Dict) or (isinstance(v, ast.Call) and isinstance(v.func, ast.Name) and v.func.id == 'dict'):
                        kind = 'dict'
                    elif isinstance(v, ast.Set) or (isinstance(v, ast.Call) and isinstance(v.func, ast.Name) and v.func.id in ('set', 'frozenset')):
                        kind = 'set'
                    elif isinstance(v, (ast.List, ast.ListComp)):
                        kind = 'list'
                    out[t.id] = kind
        elif isinstance(s, ast.FunctionDef):
            out[s.name] = 'func'
        elif isinstance(s, ast.ClassDef):
            out[s.name] = 'class'
    return out


def functions(tree):
    """(qualname, node) of every function, method and nested function"""
    res = []

    def rec(body, prefix):
        for s in body:
            if isinstance(s, ast.FunctionDef):
                q = prefix + s.name
                res.append((q, s))
                rec(s.body, q + '.')
            elif isinstance(s, ast.ClassDef):
                rec(s.body, prefix + s.name + '.')
            elif isinstance(s, (ast.If, ast.For, ast.While, ast.With, ast.Try)):
                for fld in ('body', 'orelse', 'finalbody', 'handlers'):
                    for x in getattr(s, fld, []) or []:
                        if isinstance(x, ast.ExceptHandler):
                            rec(x.body, prefix)
                        elif isinstance(x, ast.stmt):
                            rec([x], prefix)
    rec(tree.body, '')
    return res


def local_names(fn):
    names = {a.arg for a in fn.args.args + fn.args.kwonlyargs + getattr(fn.args, 'posonlyargs', [])}
    if fn.args.vararg:
        names.add(fn.args.vararg.arg)
    if fn.args.kwarg:
        names.add(fn.args.kwarg.arg)
    for n in ast.walk(fn):
        if isinstance(n, ast.Name) and isinstance(n.ctx, (ast.Store, ast.Del)):
            names.add(n.id)
        elif isinstance(n, (ast.FunctionDef, ast.ClassDef)) and n is not fn:
            names.add(n.name)
        elif isinstance(n, ast.ExceptHandler) and n.name:
            names.add(n.name)
        elif isinstance(n, (ast.Import, ast.ImportFrom)):
            for a in n.names:
                names.add((a.asname or a.name).split('.')[0])
    return names


def root_name(e):
    while isinstance(e, (ast.Attribute, ast.Subscript)):
        e = e.value
    return e.id if isinstance(e, ast.Name) else None


def analyse(tree):
    mods = module_level(tree)
    mutable_globals = {n for n, k in mods.items() if k in ('dict', 'set', 'list')}
    # functions and classes defined at module level are objects too: state kept in their attributes (f.cache = [], Cls.count += 1)
    # survives the call exactly like a module-level table
    defs = {n.name for n in tree.body if isinstance(n, (ast.FunctionDef, ast.ClassDef))}
    set_globals = {n for n, k in mods.items() if k == 'set'}
    findings = []
    stats = {'functions': 0, 'stores_checked': 0, 'calls_checked': 0, 'iterations_checked': 0}
    for q, fn in functions(tree):
        stats['functions'] += 1
        locs = local_names(fn)
        # enclosing function locals shadow too (closures): conservative - treat names of enclosing defs as local
        glob_here = {n for n in mutable_globals if n not in locs}
        # flow-insensitive aliases of module-level mutables: x = GLOBAL / x = GLOBAL[...]? (only direct names matter here)
        aliases = set()
        for n in ast.walk(fn):
            if isinstance(n, ast.Assign) and isinstance(n.value, ast.Name) and n.value.id in glob_here:
                for t in n.targets:
                    if isinstance(t, ast.Name):
                        aliases.add(t.id)
        tainted = glob_here | aliases
        set_names = ({n for n in set_globals if n not in locs}) | set()
        # locals bound to set displays / set() calls / set operators
        for n in ast.walk(fn):
            if isinstance(n, ast.Assign) and is_set_expr(n.value, set_names):
                for t in n.targets:
                    if isinstance(t, ast.Name):
                        set_names.add(t.id)
        for n in ast.walk(fn):
            if isinstance(n, (ast.Global, ast.Nonlocal)):
                findings.append((q, n.lineno, 'F2', '%s statement' % type(n).__name__.lower()))
            if isinstance(n, (ast.Assign, ast.AugAssign, ast.AnnAssign, ast.Delete)):
                targets = n.targets if isinstance(n, (ast.Assign, ast.Delete)) else [n.target]
                for t in targets:
                    for tt in ([t] if not isinstance(t, (ast.Tuple, ast.List)) else t.elts):
                        stats['stores_checked'] += 1
                        if isinstance(tt, (ast.Subscript, ast.Attribute)) and root_name(tt) in tainted:
                            findings.append((q, n.lineno, 'F1', 'store into module-level object %s' % root_name(tt)))
                        elif isinstance(tt, (ast.Subscript, ast.Attribute)) and root_name(tt) in defs and root_name(tt) not in locs:
                            findings.append((q, n.lineno, 'F1', 'store into an attribute of the module-level function / class %s' % root_name(tt)))
                        if isinstance(n, ast.AugAssign) and isinstance(tt, ast.Name) and tt.id in tainted and tt.id in glob_here:
                            findings.append((q, n.lineno, 'F1', 'augmented assignment to module-level %s' % tt.id))
            if isinstance(n, ast.Call):
                stats['calls_checked'] += 1
                f = n.func
                if isinstance(f, ast.Attribute) and f.attr in MUTATORS and root_name(f.value) in tainted:
                    findings.append((q, n.lineno, 'F1', 'mutating call %s.%s()' % (root_name(f.value), f.attr)))
                elif isinstance(f, ast.Attribute) and f.attr in MUTATORS and isinstance(f.value, (ast.Attribute, ast.Subscript)) \
                        and root_name(f.value) in defs and root_name(f.value) not in locs:
                    findings.append((q, n.lineno, 'F1', 'mutating call on state kept in an attribute of the module-level function / class %s' % root_name(f.value)))
                # escapes: a module-level mutable passed to a callee
                callee = f.id if isinstance(f, ast.Name) else (f.attr if isinstance(f, ast.Attribute) else None)
                for i, a in enumerate(n.args):
                    if isinstance(a, ast.Name) and a.id in tainted:
                        if callee == 'ChainMap' and i >= 1:
                            continue       # reads only: ChainMap routes writes to maps[0]
                        if callee in ('len', 'isinstance', 'sorted', 'list', 'tuple', 'set', 'frozenset', 'dict', 'print', 'str', 'repr', 'bool', 'any', 'all', 'min', 'max', 'sum', 'enumerate', 'iter'):
                            continue
                        if isinstance(f, ast.Attribute) and f.attr in ('update', 'extend', 'get', 'join', 'format', 'issubset', 'issuperset', 'union', 'intersection') \
                                and root_name(f.value) not in tainted:
                            continue       # argument is only read by these methods
                        findings.append((q, n.lineno, 'F1', 'module-level %s escapes into %s()' % (a.id, callee)))
                # nondeterministic primitives
                if isinstance(f, ast.Attribute) and isinstance(f.value, ast.Name):
                    if (f.value.id, f.attr) in NONDET_CALLS or (f.value.id, None) in NONDET_CALLS:
                        findings.append((q, n.lineno, 'F3', 'call %s.%s' % (f.value.id, f.attr)))
                if isinstance(f, ast.Attribute) and f.attr == 'environ':
                    findings.append((q, n.lineno, 'F3', 'os.environ'))
                if isinstance(f, ast.Name) and f.id in NONDET_BUILTINS:
                    findings.append((q, n.lineno, 'F3', 'call %s()' % f.id))
                if isinstance(f, ast.Attribute) and f.attr == 'pop' and is_set_expr(f.value, set_names):
                    findings.append((q, n.lineno, 'F3', 'set.pop()'))
                # a set handed to a repository function may be iterated there (order depends on the hash seed)
                SAFE = ('len', 'isinstance', 'sorted', 'set', 'frozenset', 'bool', 'any', 'all', 'min', 'max', 'sum', 'print', 'repr', 'str')
                if callee not in SAFE and not (isinstance(f, ast.Attribute) and f.attr in ('update', 'issubset', 'issuperset', 'union', 'intersection', 'difference', 'add', 'discard', 'remove')):
                    for a in list(n.args) + [k.value for k in n.keywords]:
                        if is_set_expr(a, set_names):
                            findings.append((q, n.lineno, 'F3', 'a set is passed to %s() where it may be iterated' % callee))
                # iteration of a set through a consumer
                if callee in ('list', 'tuple', 'enumerate', 'iter', 'next', 'zip', 'map', 'filter', 'join') and n.args:
                    for a in n.args:
                        if is_set_expr(a, set_names):
                            findings.append((q, n.lineno, 'F3', 'a set is iterated through %s()' % callee))
            if isinstance(n, ast.Attribute) and n.attr == 'environ' and isinstance(n.value, ast.Name) and n.value.id == 'os':
                findings.append((q, n.lineno, 'F3', 'os.environ'))
            its = []
            if isinstance(n, ast.For):
                its.append(n.iter)
            if isinstance(n, (ast.ListComp, ast.SetComp, ast.DictComp, ast.GeneratorExp)):
                its += [g.iter for g in n.generators]
            if isinstance(n, ast.Starred):
                its.append(n.value)
            for itx in its:
                stats['iterations_checked'] += 1
                if is_set_expr(itx, set_names):
                    findings.append((q, itx.lineno, 'F3', 'iteration over a set'))
        # decorators: a memoising decorator is state that survives the call; a decorator this scan does not know may be one
        for dec in fn.decorator_list:
            name = ast.unparse(dec.func if isinstance(dec, ast.Call) else dec)
            if name in PURE_DECORATORS:
                continue
            last = name.split('.')[-1]
            findings.append((q, fn.lineno, 'F2', ('memoising decorator @%s keeps results between calls' if last in CACHING_DECORATORS
                                                  else 'decorator @%s (not known to be stateless)') % name))
        # mutable defaults
        for d in fn.args.defaults + [k for k in fn.args.kw_defaults if k is not None]:
            if isinstance(d, (ast.List, ast.Dict, ast.Set, ast.ListComp, ast.DictComp, ast.SetComp)) or \
                    (isinstance(d, ast.Call) and isinstance(d.func, ast.Name) and d.func.id in ('list', 'dict', 'set', 'bytearray')):
                findings.append((q, fn.lineno, 'F2', 'mutable default argument'))
    # module level: mutations only in the import-time table-building block
    ml = []
    for s in tree.body:
        if isinstance(s, ast.Expr) and isinstance(s.value, ast.Call) and isinstance(s.value.func, ast.Attribute) \
                and s.value.func.attr in MUTATORS and root_name(s.value.func.value) in mutable_globals:
            ml.append((root_name(s.value.func.value), s.value.func.attr, s.lineno))
    return findings, stats, ml, sorted(mutable_globals)


PURE_DECORATORS = {'staticmethod', 'classmethod', 'property', 'abc.abstractmethod', 'abstractmethod', 'functools.wraps', 'wraps'}
CACHING_DECORATORS = {'lru_cache', 'cache', 'cached_property', 'memoize', 'memoized', 'memo'}


def is_set_expr(e, set_names):
    if isinstance(e, (ast.Set, ast.SetComp)):
        return True
    if isinstance(e, ast.Name) and e.id in set_names:
        return True
    if isinstance(e, ast.Call) and isinstance(e.func, ast.Name) and e.func.id in ('set', 'frozenset'):
        return True
    if isinstance(e, ast.BinOp) and isinstance(e.op, (ast.BitAnd, ast.BitOr, ast.Sub, ast.BitXor)):
        return is_set_expr(e.left, set_names) or is_set_expr(e.right, set_names)
    if isinstance(e, ast.Call) and isinstance(e.func, ast.Attribute) and e.func.attr in ('union', 'intersection', 'difference', 'keys') \
            and e.func.attr != 'keys' and is_set_expr(e.func.value, set_names):
        return True
    return False


def obligations_frames(ctx, modname='asm'):
    mod = ctx.module(modname)
    findings, stats, ml, mg = analyse(mod.tree)
    for q, _ in functions(mod.tree):
        ctx.funcs['%s.%s' % (modname, q)] = {'file': 'bronzebeard/%s.py' % modname, 'frame-only': True}
    by = {}
    for q, line, kind, what in findings:
        by.setdefault((kind, q), []).append((line, what))
    kinds = {'F1': 'modifies-no-module-level-object', 'F2': 'no-hidden-state', 'F3': 'no-nondeterministic-primitive'}
    for kind, title in kinds.items():
        bad = sorted((q, l, w) for (k, q), v in by.items() if k == kind for l, w in v)
        ctx.add(Obligation('%s/frame/%s(%d functions)' % (modname, title, stats['functions']), [], z3.BoolVal(not bad), 'finite',
                           func=modname, kind='frame', cover=False,
                           meta={'replay': ('purity', {'findings': bad[:5]}),
                                 'what': '; '.join('%s:%d %s' % b for b in bad[:4]), 'key': 'frame:%s' % kind}))
    allowed = all(name in ('INSTRUCTIONS', 'KEYWORDS') and meth == 'update' for name, meth, _ in ml)
    ctx.add(Obligation('%s/frame/module-level-mutation-only-builds-the-tables(%d statements)' % (modname, len(ml)), [], z3.BoolVal(allowed),
                       'finite', func=modname, kind='frame', cover=False,
                       meta={'replay': ('purity', {}), 'what': 'unexpected import-time mutation: %r' % ml[:5], 'key': 'frame:import-time'}))
    ctx.samples.append({'frame_scan': stats, 'module_level_mutables': mg[:12], 'import_time_mutations': len(ml)})


def replay_purity(ctx, d, model):
    from bounded import purity
    return purity.replay(ctx, d, model)


from pyvc import replays as _R  # noqa: E402
_R.register('purity', 'contracts.frames:replay_purity')
