"""assemble() under contract: the pass pipeline as a typestate protocol.

The passes are verified one by one against contracts that have PRECONDITIONS on the item stream (what earlier passes must
have established) - e.g. the step VCs of transform_compressible assume that register fields are registers (aliases
resolved) and that the label table exists; resolve_immediates assumes that no later pass changes a size.  `assemble`
is the caller that has to establish them.  Here the real body of assemble() is executed with every pass replaced by its
protocol contract (a caller is checked against the callee's contract, not its body):

  state        a set of facts about the item stream
  each pass    requires some facts, adds / removes facts, must receive the stream the previous pass returned and the SAME
               constants / labels tables all along, and the reader must be given the caller's include_dirs unchanged

  resolve_constants              ensures consts
  resolve_labels                 requires no size-changing pass ran yet                       ensures labels
  resolve_register_aliases       requires consts                                             ensures aliases
  transform_compressible         only with compress; requires consts labels aliases, before aligns   ensures compressed(after-pseudo)
  transform_pseudo_instructions  requires consts labels, before aligns; its expansions carry the pseudo-instruction's own
                                 operand tokens: REMOVES aliases                              ensures pseudo
  resolve_aligns                 requires labels pseudo, with compress: compressed after pseudo  ensures aligns
  resolve_immediates             requires consts labels pseudo aligns                         ensures imms
  resolve_instructions           requires imms aliases pseudo                                 ensures insns
  transform_shorthand_packs      requires imms                                                ensures shorthand
  resolve_packs                  requires imms shorthand                                      ensures packs
  resolve_strings / sequences / include_bytes                                                ensure strings / sequences / blobs-of-files
  resolve_blobs                  requires everything; its result is what assemble returns

Violations are replayed with alias / pseudo / include programs on the real code."""
import z3

from pyvc import interp as I
from pyvc.vc import Obligation
from contracts.encoders import Harness

PASSES = ['resolve_constants', 'resolve_labels', 'resolve_register_aliases', 'transform_compressible', 'transform_pseudo_instructions',
          'resolve_aligns', 'resolve_immediates', 'resolve_instructions', 'resolve_strings', 'resolve_sequences', 'transform_shorthand_packs',
          'resolve_packs', 'resolve_include_bytes', 'resolve_blobs']


class Stream(I.Opaque):
    def __init__(self, stage):
        super().__init__('items-after-' + stage)
        self.stage = stage


def run_assemble(h, run, compress):
    log = {'calls': [], 'problems': [], 'state': set()}
    state = log['state']
    inc = [I.Opaque('caller-include-dir')]
    source = I.Sym('str', z3.Int('path_or_source'))
    cur = {'stream': None, 'consts': None, 'labels': None}

    def need(name, facts, absent=()):
        for f in facts:
            if f not in state:
                log['problems'].append('%s runs before %s' % (name, {'consts': 'the constants are resolved', 'labels': 'the label table exists',
                                                                       'aliases': 'register aliases are resolved in every instruction (expansions of pseudo-instructions included)',
                                                                       'pseudo': 'pseudo-instructions are expanded', 'aligns': 'aligns are resolved',
                                                                       'imms': 'immediates are resolved', 'shorthand': 'shorthand packs are expanded',
                                                                       'compressed-after-pseudo': 'the expansions of pseudo-instructions went through the compression pass',
                                                                       'insns': 'instructions are encoded', 'strings': 'strings are encoded', 'sequences': 'sequences are encoded',
                                                                       'packs': 'packs are encoded', 'files': 'include_bytes files are read'}.get(f, f)))
        for f in absent:
            if f in state:
                log['problems'].append('%s runs after %s' % (name, {'aligns': 'aligns were resolved (sizes are final there)', 'imms': 'immediates were resolved',
                                                                     'sized': 'a size-changing pass'}.get(f, f)))

    def thread(name, args):
        if not args or args[0] is not cur['stream']:
            log['problems'].append('%s is not given the items the previous pass returned' % name)

    def tables(name, args, want):
        for k, pos in want:
            if len(args) <= pos:
                log['problems'].append('%s called without the %s table' % (name, k))
                continue
            if cur[k] is None:
                cur[k] = args[pos]
            elif args[pos] is not cur[k]:
                log['problems'].append('%s is given another %s table than the passes before it' % (name, k))

    def contract(name):
        def c(it, f, args, kwargs):
            log['calls'].append(name)
            if kwargs and name != 'read_lines':
                raise I.Unsupported('%s called with keyword arguments' % name)
            if name == 'read_lines':
                if len(args) != 1 or args[0] is not source or kwargs.get('include_dirs') is not inc or set(kwargs) - {'include_dirs'}:
                    log['problems'].append('read_lines is not given the source and the caller\'s include_dirs unchanged')
                cur['stream'] = [I.Opaque('line')]
                return cur['stream']
            if name == 'lex_tokens':
                return I.Opaque('tokens')
            if name == 'parse_item':
                return I.Opaque('item')
            if name != 'resolve_constants':       # the first pass takes what the comprehensions built from the parsed lines
                thread(name, args)
            if name == 'resolve_constants':
                tables(name, args, [('consts', 1)])
                state.add('consts')
            elif name == 'resolve_labels':
                tables(name, args, [('labels', 1)])
                need(name, [], absent=('sized',))
                state.add('labels')
            elif name == 'resolve_register_aliases':
                tables(name, args, [('consts', 1)])
                need(name, ['consts'])
                state.add('aliases')
            elif name == 'transform_compressible':
                tables(name, args, [('consts', 1), ('labels', 2)])
                if not compress:
                    log['problems'].append('transform_compressible runs although compression is off')
                need(name, ['consts', 'labels', 'aliases'], absent=('aligns', 'imms'))
                state.add('sized')
                if 'pseudo' in state:
                    state.add('compressed-after-pseudo')
            elif name == 'transform_pseudo_instructions':
                tables(name, args, [('consts', 1), ('labels', 2)])
                need(name, ['consts', 'labels'], absent=('aligns', 'imms'))
                state.add('pseudo')
                state.add('sized')
                state.discard('aliases')
            elif name == 'resolve_aligns':
                tables(name, args, [('labels', 1)])
                need(name, ['labels', 'pseudo'] + (['compressed-after-pseudo'] if compress else []), absent=('imms',))
                state.add('aligns')
            elif name == 'resolve_immediates':
                tables(name, args, [('consts', 1), ('labels', 2)])
                need(name, ['consts', 'labels', 'pseudo', 'aligns'])
                state.add('imms')
            elif name == 'resolve_instructions':
                need(name, ['imms', 'aliases', 'pseudo'])
                state.add('insns')
            elif name == 'resolve_strings':
                state.add('strings')
            elif name == 'resolve_sequences':
                state.add('sequences')
            elif name == 'transform_shorthand_packs':
                need(name, ['imms'])
                state.add('shorthand')
            elif name == 'resolve_packs':
                need(name, ['imms', 'shorthand'])
                state.add('packs')
            elif name == 'resolve_include_bytes':
                state.add('files')
            elif name == 'resolve_blobs':
                need(name, ['insns', 'strings', 'sequences', 'packs', 'files', 'aligns'])
                cur['stream'] = I.Opaque('program')
                return cur['stream']
            cur['stream'] = Stream(name)
            return cur['stream']
        return c

    def b_len(it, v):
        return 1

    def opaque_attr(it, obj, name):
        return I.Opaque('attr')

    def iterate(it, v):
        if isinstance(v, Stream):
            return []          # the logging loop over the parsed items: no effect on the result (A-LOG)
        return None

    def external(it, qual, args, kw):
        if qual in ('os.path.isfile', 'os.path.exists', 'os.path.isdir'):
            return bool(it.run.branch(z3.Bool('fs_%s' % qual.split('.')[-1])))
        if qual.startswith('os.path.') or qual == 'os.getcwd':
            return I.Opaque('path')
        return NotImplemented
    contracts = {n: contract(n) for n in PASSES + ['read_lines', 'lex_tokens', 'parse_item']}
    it = I.Interp(run, h.base_it.mods, contracts=contracts, hooks={'len': b_len, 'opaque_attr': opaque_attr, 'iterate': iterate, 'external': external})
    res = it.call(h.env.vars['assemble'], [source], {'compress': compress, 'include_dirs': inc})
    log['result_is_blobs'] = res is cur['stream'] and 'resolve_blobs' in log['calls']
    return log


def obligations_eager(ctx, h):
    """every pass runs to completion before it returns: a generator pass would run interleaved with the passes after it, and
    they share (and mutate) the label table - the pipeline contract above and every per-pass step VC assume sequencing"""
    import ast
    tree = h.mod.tree
    for node in tree.body:
        if isinstance(node, ast.FunctionDef) and node.name in PASSES + ['read_lines', 'lex_tokens', 'parse_item']:
            own = [n for n in ast.walk(node) if isinstance(n, (ast.Yield, ast.YieldFrom))]
            # yields of nested function definitions do not make this function a generator
            nested = set()
            for sub in ast.walk(node):
                if isinstance(sub, (ast.FunctionDef, ast.Lambda)) and sub is not node:
                    nested.update(id(n) for n in ast.walk(sub) if isinstance(n, (ast.Yield, ast.YieldFrom)))
            lazy = any(id(n) not in nested for n in own)
            ctx.add(Obligation('asm.%s/runs-to-completion-before-it-returns' % node.name, [], z3.BoolVal(not lazy), 'finite', func='asm.' + node.name,
                               kind='frame', cover=False,
                               meta={'replay': ('pipeline', {}), 'key': 'pipeline:lazy:%s' % node.name,
                                     'what': '%s is a generator: its body runs interleaved with the later passes, which read and shrink the same label table' % node.name}))


def obligations_pipeline(ctx, h):
    ctx.under_contract('assemble')
    obligations_eager(ctx, h)
    for compress in (False, True):
        tag = 'compress' if compress else 'no-compress'
        try:
            paths = I.explore(lambda run: run_assemble(h, run, compress), I.IntDom)
        except I.Unsupported as e:
            ctx.undecide('asm.assemble/%s' % tag, str(e))
            continue
        rets = [p for p in paths if p.kind == 'return']
        ctx.add(Obligation('asm.assemble/%s/some-path-returns' % tag, [], z3.BoolVal(bool(rets)), 'finite', func='asm.assemble', kind='cover',
                           cover=False, meta={'replay': ('pipeline', {})}))
        for i, p in enumerate(rets):
            log = p.value
            probs = log['problems']
            ctx.add(Obligation('asm.assemble/%s/path%d/every-pass-finds-its-precondition-established' % (tag, i), list(p.pc), z3.BoolVal(not probs),
                               'INT', func='asm.assemble', kind='pre', cover=False,
                               meta={'replay': ('pipeline', {}), 'what': 'assemble(compress=%s): %s' % (compress, '; '.join(probs[:3])), 'key': 'pipeline:%s' % tag,
                                     'props': ['C03', 'C04', 'C05', 'C08', 'C09', 'C11', 'C12', 'C14', 'C20']}))
            ctx.add(Obligation('asm.assemble/%s/path%d/returns-the-concatenated-blobs' % (tag, i), list(p.pc), z3.BoolVal(bool(log['result_is_blobs'])),
                               'INT', func='asm.assemble', kind='post', cover=False, meta={'replay': ('pipeline', {}), 'key': 'pipeline:result'}))
            if compress:
                n = log['calls'].count('transform_compressible')
                ctx.add(Obligation('asm.assemble/compress/path%d/compression-runs-on-the-source-and-on-the-expansions' % i, list(p.pc), z3.BoolVal(n >= 2),
                                   'INT', func='asm.assemble', kind='post', cover=False,
                                   meta={'replay': ('pipeline', {}), 'props': ['C20'], 'key': 'pipeline:two-rounds',
                                         'what': 'transform_compressible runs %d time(s): instructions written out and expansions of pseudo-instructions must both be considered' % n}))


def replay_pipeline(ctx, d, model):
    """alias / pseudo / include programs on the real code, both modes"""
    from bounded import exprs
    from pyvc.real import real

    class C:
        seed = 0
        prop = 'C11'

        def __init__(self):
            self.found = []

        def b_rule(self, t):
            pass

        def b_eval(self, *a, **k):
            pass

        def violation(self, obligation, key, what, replay, confirmed=True, source='bounded'):
            self.found.append((key, what, replay))
    c = C()
    exprs.alias_programs(c, real(), relation='transparent')
    if not c.found:
        exprs.alias_programs(c, real(), relation='accept')
    if not c.found:
        from contracts.replay_passes import _probe
        r = _probe(ctx, ['mix', 'pseudo', 'li', 'cedge'], {'decode', 'modes', 'eligible', 'accept', 'size', 'label', 'target', 'value', 'li'})
        if r and r.get('confirmed'):
            return r
        from bounded import includes
        return includes.replay(ctx, d, model)
    key, what, rep = c.found[0]
    return {'confirmed': True, 'key': key, 'what': what, 'input': rep}


from pyvc import replays as _R  # noqa: E402
_R.register('pipeline', 'contracts.pipeline:replay_pipeline')


def task_pipeline(ctx):
    h = Harness(ctx)
    obligations_pipeline(ctx, h)
