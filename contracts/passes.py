"""Loop-body (Hoare step) verification of the position-tracking passes of asm.py:
resolve_labels, transform_compressible, transform_pseudo_instructions, resolve_aligns, resolve_immediates.
DESIGN 3.4, 4 C03/C04/C08/C09/C12/C20.

For each pass the `for item in items:` loop body is taken from the AST of /repo and executed ONCE by the
interpreter from an arbitrary state that satisfies the loop invariant, on an arbitrary item of each concrete
Item class (the real constructors build it from symbolic fields).  No unrolling, no bound.

Invariant (3.4):   position == P_k  (sum of size() of what has been appended so far)
                   LabelsExact(k): for an arbitrary label with value v
                       anchored at or before item k :  v <= P_k            (already final for this pass)
                       anchored after item k        :  v == P_k + old(k) + R,  R >= 0 the old sizes in between
Step obligations per path of the body:
    pos     position' - position == sum(size() of the appended items)
    shrink  0 <= new total size <= old size()          (C20 non-growth, C09)
    labels  case "before": v' == v ; case "after": v' == position' + R
    frame   the appended items derive from the current item: same `line`; untouched items are the same object
"""
import ast

import z3

from pyvc import interp as I
from pyvc.vc import Obligation
from contracts.encoders import Harness, RegOperand, lookup_register_contract
from contracts import world as W


# ---------------------------------------------------------------------------
# structural extraction

def class_names(h):
    """Item class -> mnemonics parse_item routes to it; read from the AST of parse_item's if-chain"""
    node = h.mod.func_node('parse_item')
    out = {}
    chain = [s for s in node.body if isinstance(s, ast.If)]
    cur = chain[0] if chain else None
    while cur is not None:
        t = cur.test
        tbl = None
        if isinstance(t, ast.Compare) and len(t.ops) == 1 and isinstance(t.ops[0], ast.In) and isinstance(t.comparators[0], ast.Name):
            tbl = t.comparators[0].id
        if tbl is not None and tbl in h.env.vars:
            keys = h.env.vars[tbl]
            keys = list(keys.keys()) if isinstance(keys, dict) else sorted(keys)
            for r in ast.walk(cur):
                if r is not cur and isinstance(r, ast.If) and r in cur.orelse:
                    break
            for st in cur.body:
                for r in ast.walk(st):
                    if isinstance(r, ast.Return) and isinstance(r.value, ast.Call) and isinstance(r.value.func, ast.Name):
                        out.setdefault(r.value.func.id, [])
                        for k in keys:
                            if k not in out[r.value.func.id]:
                                out[r.value.func.id].append(k)
        nxt = cur.orelse
        cur = nxt[0] if len(nxt) == 1 and isinstance(nxt[0], ast.If) else None
    return out


_NAMES_CACHE = {}


def dynamic_class_names(ph):
    from contracts import parse as PA
    from spec import rv32, rvc
    h = ph.h
    key = id(h.mod)
    if key in _NAMES_CACHE:
        return _NAMES_CACHE[key]
    out = {}
    fallback = None
    for m in h.instructions():
        sp = rvc if m.startswith('c.') else rv32
        try:
            counts = [len(sp.roles(m))]
        except Exception:
            counts = [0, 1, 2, 3, 4]
        found = set()
        for n in counts + [c for c in (0, 1, 2, 3, 4, 5) if c not in counts]:
            toks = [PA.tok('t%d' % i) for i in range(n)]

            def body(run, toks=toks, m=m):
                for t in toks:
                    run.assume(t.t != I.str_id('='))
                    run.assume(t.t != I.str_id('('))
                item, it, line = PA.run_parse(h, ph, run, [m] + toks)
                return item
            try:
                paths = I.explore(body, I.IntDom)
            except I.Unsupported:
                continue
            for p in paths:
                if p.kind == 'return' and isinstance(p.value, I.SObj):
                    found.add(p.value.cls.name)
            if found:
                break
        if not found:
            fallback = fallback if fallback is not None else class_names(h)
            found = {c for c, ms in fallback.items() if m in ms}
        for c in found:
            out.setdefault(c, [])
            if m not in out[c]:
                out[c].append(m)
    # keyword-named data items (Sequence, ShorthandPack, ...): every name of every module-level *_NAMES set, run the same way
    extra = []
    for var, val in h.env.vars.items():
        if var.endswith('_NAMES') and isinstance(val, (set, frozenset, list, tuple)) and all(isinstance(x, str) for x in val):
            extra += sorted(val)
    for m in extra:
        found = set()
        for n in (1, 2, 0, 3):
            toks = [PA.tok('t%d' % i) for i in range(n)]

            def body2(run, toks=toks, m=m):
                for t in toks:
                    run.assume(t.t != I.str_id('='))
                item, it, line = PA.run_parse(h, ph, run, [m] + toks)
                return item
            try:
                paths = I.explore(body2, I.IntDom)
            except I.Unsupported:
                continue
            for p in paths:
                if p.kind == 'return' and isinstance(p.value, I.SObj):
                    found.add(p.value.cls.name)
            if found:
                break
        for c in found:
            out.setdefault(c, [])
            if m not in out[c]:
                out[c].append(m)
    # classes the runs did not reach: the reading of parse_item's if-chain, where it has an answer
    try:
        for c, ms in class_names(h).items():
            if c not in out:
                out[c] = list(ms)
    except Exception:
        pass
    _NAMES_CACHE[key] = out
    return out


def item_classes(h):
    Item = h.env.vars['Item']
    out = []
    for name, v in h.env.vars.items():
        if isinstance(v, I.ClassVal) and v.issub(Item) and v is not Item:
            # abstract bases have no __init__ of their own chain below Item
            c, init = v.find('__init__')
            if c is Item:
                continue
            out.append(v)
    return out


def loop_parts(node):
    """(pre statements, the for-loop over the item list, post statements, position var, output list var)"""
    loop_i = None
    for i, s in enumerate(node.body):
        if isinstance(s, ast.For):
            loop_i = i
            break
    if loop_i is None:
        raise I.Unsupported('%s: no item loop' % node.name)
    pre, loop, post = node.body[:loop_i], node.body[loop_i], node.body[loop_i + 1:]
    out_var = None
    for s in post:
        if isinstance(s, ast.Return) and isinstance(s.value, ast.Name):
            out_var = s.value.id
    pos_var = None
    for s in pre:
        if isinstance(s, ast.Assign) and len(s.targets) == 1 and isinstance(s.targets[0], ast.Name) \
                and isinstance(s.value, ast.Constant) and s.value.value == 0 and not isinstance(s.value.value, bool):
            pos_var = s.targets[0].id
    if out_var is None:
        raise I.Unsupported('%s: cannot identify the output list' % node.name)
    if not isinstance(loop.target, ast.Name):
        raise I.Unsupported('%s: loop target' % node.name)
    return pre, loop, post, pos_var, out_var


PSEUDO_ARITY = {'nop': 0, 'li': 2, 'mv': 2, 'not': 2, 'neg': 2, 'seqz': 2, 'snez': 2, 'sltz': 2, 'sgtz': 2,
                'beqz': 2, 'bnez': 2, 'blez': 2, 'bgez': 2, 'bltz': 2, 'bgtz': 2, 'bgt': 3, 'ble': 3, 'bgtu': 3, 'bleu': 3,
                'j': 1, 'jal': 1, 'jr': 1, 'jalr': 1, 'ret': 0, 'call': 1, 'tail': 1, 'fence': 0}


class Step:
    """result of one execution of a loop body"""
    pass


class PassHarness:
    def __init__(self, ctx, h, pass_name):
        self.ctx = ctx
        self.h = h
        self.pass_name = pass_name
        self.node = h.mod.func_node(pass_name)
        self.func = h.env.vars[pass_name]
        self.params = [a.arg for a in self.node.args.args]
        # whether the pass keeps a byte position is discovered when the item loop is reached (run_body)
        self.pos_var = True
        self._names = None
        ctx.dropped.add('log_conversion / log_constant / log.info calls (A-LOG: logging has no effect on results)')
        ctx.trust('modular callee contracts used inside pass bodies (each body is verified separately where it has one): lookup_register '
                  '(contracts/encoders.py), Arithmetic.eval (deterministic int-or-AssemblerError; integer literals and str(int) evaluate to '
                  'their value: A-EVAL), parse_immediate for unknown tokens (some expression object), SymExpr.eval for parser-produced '
                  'expressions (deterministic function of expression, position and table state, or AssemblerError with the given line)')
        ctx.trust('struct.calcsize(fmt) >= 0 for an accepted format, struct.error otherwise (A-STRUCT)')

    @property
    def names(self):
        """Item class -> the mnemonics parse_item builds it for: found by RUNNING the real parse_item on every mnemonic of the
        instruction tables with arbitrary operand tokens (how parse_item is written does not matter); the reading of its
        if-chain (class_names) is only a fallback for mnemonics the run cannot decide"""
        if self._names is None:
            self._names = dynamic_class_names(self)
        return self._names

    # -- contracts used modularly inside the bodies ----------------------
    def contracts(self, builder):
        h = self.h

        def nolog(it, f, args, kwargs):
            return None

        def arithmetic_eval(it, f, args, kwargs):
            # contract of Arithmetic.eval: requires self.expr : str (the body calls .startswith); returns an int
            # that is a deterministic function of (expr, env state) or raises AssemblerError(line)
            slf, position, env, line = args
            e = slf.fields.get('expr')
            if isinstance(e, RegOperand):
                if not it.run.branch(e.is_str):
                    I.py_raise('AttributeError', "'int' object has no attribute 'startswith'")
                # a register *name* evaluates only if it is an integer literal: the environment holds constants
                # and labels, not REGISTERS; the value of a literal is the number it spells
                lit = z3.Bool('islit_' + e.name)
                if not it.run.branch(lit):
                    exc = it.instantiate(h.env.vars['AssemblerError'], ['unknown variable in expr', line], {})
                    raise I.PyRaise(exc)
                it.run.assume(e.valid)
                return e.num
            if isinstance(e, (int, I.ConstValueT)) and not isinstance(e, bool):
                I.py_raise('AttributeError', "'int' object has no attribute 'startswith'")
            if isinstance(e, I.Sym) and e.sort in ('int', 'bool'):
                I.py_raise('AttributeError', "'int' object has no attribute 'startswith'")
            if isinstance(e, StrOfInt):
                return e.value          # A-EVAL: eval(str(n)) == n
            if isinstance(e, str):
                try:
                    return int(e, 0)
                except ValueError:
                    pass
            key = ('arith', id(slf))
            ex = builder.named_expr(key, 'arith')
            return builder.eval_expr(it, ex, position, env, line)

        def parse_immediate(it, f, args, kwargs):
            imm, line = args
            if isinstance(imm, (list, tuple)) and imm and isinstance(imm[0], str):
                return it.inline(f, args, kwargs)
            if not isinstance(imm, (list, tuple)):
                # precondition of parse_immediate: a LIST of tokens (it joins them with spaces; a bare string would be
                # taken apart character by character)
                it.run.notes.setdefault('pre_violations', []).append('parse_immediate is handed %s instead of a list of tokens' % (
                    'a single string token' if isinstance(imm, (str, I.Sym)) else type(imm).__name__))
                imm = [imm]
            # unknown tokens: some expression object, or a refusal
            key = ('parse', tuple(id(x) if not isinstance(x, I.Sym) else x.t.get_id() for x in imm))
            return builder.named_expr(key, 'parsed')

        return {'lookup_register': lookup_register_contract, 'log_conversion': nolog, 'log_constant': nolog,
                'Arithmetic.eval': arithmetic_eval, 'parse_immediate': parse_immediate}

    # -- building an arbitrary item of a class ---------------------------
    def mk_item(self, run, it, builder, cls, name, variant=None):
        dom = run.dom
        c, init = cls.find('__init__')
        a = init.node.args
        params = [x.arg for x in a.args][1:]
        args = []
        line = builder.mk_line('item')
        builder.line = line
        info = {'regs': {}, 'line': line}
        for p in params:
            if p == 'line':
                args.append(line)
            elif p == 'name':
                args.append(name)
            elif p in ('rd', 'rs1', 'rs2', 'rd_rs1'):
                r = W.mk_reg(run, p)
                info['regs'][p] = r
                args.append(r)
            elif p == 'imm' and variant == 'auipc-jump':
                # the jalr half of a far call / tail as transform_pseudo_instructions builds it: %lo(%offset(L))
                off = it.instantiate(self.h.env.vars['Offset'], [I.Sym('str', z3.Int('jump_target'))], {})
                lo = it.instantiate(self.h.env.vars['Lo'], [off], {})
                info['imm'] = lo
                args.append(lo)
            elif p == 'imm' and variant in ('imm-hi', 'imm-lo'):
                # %hi(<expression>) / %lo(<expression>) as parse_item and the li / call / tail expansions build them: the REAL
                # Hi / Lo object around an arbitrary inner expression (code that looks at the shape of an immediate sees it)
                inner = builder.mk_expr('imm')
                e = it.instantiate(self.h.env.vars['Hi' if variant == 'imm-hi' else 'Lo'], [inner], {})
                info['imm'] = e
                info['imm_inner'] = inner
                args.append(e)
            elif p == 'imm':
                if cls.name == 'Pack' and variant == 'resolved':
                    v = dom.var('immval')
                    info['immval'] = v
                    args.append(v)
                elif variant == 'resolved':
                    v = dom.var('immval')
                    info['immval'] = v
                    args.append(v)
                else:
                    e = builder.mk_expr('imm')
                    info['imm'] = e
                    args.append(e)
            elif p == 'expr':
                if variant == 'non-arithmetic':
                    args.append(builder.mk_expr('cexpr'))
                else:
                    # a constant's expression as parse_item builds it: Arithmetic(<text>)
                    ar = it.instantiate(self.h.env.vars['Arithmetic'], [I.Sym('str', z3.Int('cexpr_text'))], {})
                    info['cexpr'] = ar
                    args.append(ar)
            elif p == 'is_auipc_jump':
                # class invariant: only the jalr half of a far call/tail carries the flag (established by
                # transform_pseudo_instructions, see pseudo.constructed_item_obligations; parse_item leaves the default)
                if variant == 'auipc-jump':
                    b = True
                elif isinstance(name, str) and (name not in ('jalr', 'c.jr', 'c.jalr') or variant == 'plain'):
                    b = False
                else:
                    b = I.Sym('bool', z3.Bool('is_auipc_jump'))
                    if not isinstance(name, str):
                        run.assume(z3.Implies(b.t, z3.Or(*[name.t == I.str_id(k) for k in ('jalr', 'c.jr', 'c.jalr')])))
                info['is_auipc_jump'] = b
                args.append(b)
            elif p in ('aq', 'rl', 'succ', 'pred'):
                args.append(I.Sym('str', z3.Int('tok_' + p)))
            elif p == 'alignment':
                n = dom.var('N')
                run.assume(n.t >= 1)
                info['N'] = n
                args.append(n)
            elif p == 'data':
                ln = dom.var('len_data')
                run.assume(ln.t >= 0)
                args.append(W.SymSized('bytes', ln))
            elif p == 'value':
                ln = dom.var('len_utf8')
                run.assume(ln.t >= 0)
                s = W.SymSized('str', dom.var('len_chars'))
                s.encoded = W.SymSized('bytes', ln)
                args.append(s)
            elif p == 'values':
                ln = dom.var('len_values')
                run.assume(ln.t >= 0)
                args.append(W.SymSized('list', ln))
            elif p == 'fmt':
                args.append(I.Sym('str', z3.Int('fmt')))
            elif p == 'path':
                args.append(I.Sym('str', z3.Int('path')))
            elif p == 'fsize':
                n = dom.var('fsize')
                run.assume(n.t >= 0)
                args.append(n)
            else:
                raise I.Unsupported('constructor parameter %s.%s' % (cls.name, p))
        if a.vararg is not None:      # PseudoInstruction(line, name, *args)
            k = PSEUDO_ARITY.get(name, 0) if variant is None or not str(variant).startswith('arity') else int(variant[5:])
            toks = [I.Sym('str', z3.Int('arg%d' % i)) for i in range(k)]
            info['toks'] = toks
            args.extend(toks)
        obj = it.instantiate(cls, args, {})
        return obj, info

    # -- one execution of the body ---------------------------------------
    def run_body(self, run, cls, name, variant=None):
        """Call the real pass function on a symbolic item list.  The FIRST `for` loop that iterates over that list -
        in the pass itself or in a helper it calls - is the item loop: the Hoare step is taken there (state at the
        loop head made arbitrary, one arbitrary item, body once) and the call is abandoned afterwards."""
        h = self.h
        dom = run.dom
        builder = Builder2(run, None, h.env)
        hooks = make_hooks(builder)
        it = I.Interp(run, h.base_it.mods, contracts=self.contracts(builder), hooks=hooks)
        W.install_symexpr_dispatch(it, builder)
        builder.it = it
        labels = W.SymLabels(run)
        consts = W.SymConsts(run)
        items_in = ItemsToken()
        st = Step()
        st.labels, st.consts, st.builder, st.it = labels, consts, builder, it
        st.mutations = []
        run.notes['step'] = st
        harness = self

        def for_hook(itp, s, env, itv):
            if itv is not items_in:
                return None
            if not isinstance(s.target, ast.Name):
                raise I.Unsupported('%s: item loop target' % harness.pass_name)
            # the byte-position counter and the output list of this loop, from how the body uses them
            augs = {n.target.id for n in ast.walk(s) if isinstance(n, ast.AugAssign) and isinstance(n.target, ast.Name)
                    and isinstance(n.op, ast.Add)}
            appended_to = {n.func.value.id for n in ast.walk(s) if isinstance(n, ast.Call) and isinstance(n.func, ast.Attribute)
                           and n.func.attr in ('append', 'extend') and isinstance(n.func.value, ast.Name)}
            pos_names = [n for n in sorted(augs) if isinstance(I.env_lookup_default(env, n), int) and not isinstance(I.env_lookup_default(env, n), bool)]
            out_names = [n for n in sorted(appended_to) if isinstance(I.env_lookup_default(env, n), list)]
            if len(out_names) != 1 or len(pos_names) > 1:
                raise I.Unsupported('%s: cannot identify the output list / position counter of the item loop (%r, %r)' % (
                    harness.pass_name, out_names, pos_names))
            st.pos_name = pos_names[0] if pos_names else None
            st.out_name = out_names[0]
            st.init_pos = env.lookup(st.pos_name) if st.pos_name else None
            st.init_out = list(env.lookup(st.out_name))
            # the tables at the loop head are ARBITRARY (not what they were when the pre-loop code ran): a view built
            # before the loop must be a live view, a copy taken there is stale from the second iteration on
            labels.havoc('head')
            consts.havoc('head')
            P = dom.var('P')
            run.assume(P.t >= 0)
            st.P = P
            if st.pos_name:
                _set(env, st.pos_name, P)
            out = []
            _set(env, st.out_name, out)
            item, info = harness.mk_item(run, itp, builder, cls, name, variant)
            st.item, st.info = item, info
            st.old_size = itp.call(itp.getattr(item, 'size'), [], {})
            hooks['mutation'] = lambda it_, obj, how: st.mutations.append((obj, how))
            itp.assign(s.target, item, env)
            try:
                itp.exec_block(s.body, env)
            except I._Continue:
                pass
            except I._Break:
                raise I.Unsupported('break out of the item loop')
            hooks['mutation'] = None
            st.pos_after = env.lookup(st.pos_name) if st.pos_name else None
            st.out_obj = env.lookup(st.out_name)
            st.appended = list(out)
            st.out_same = st.out_obj is out
            st.new_sizes = [itp.call(itp.getattr(o, 'size'), [], {}) for o in st.appended]
            st.fenv = env
            raise _StepDone()
        hooks['for'] = for_hook

        def dict_merge(itp, vals):
            # {**a, **b, ...}: frozen copies, later operands win
            snaps = [v.snapshot() if hasattr(v, 'snapshot') else v for v in vals]
            return I.ChainMapVal(list(reversed(snaps)))
        hooks['dict_merge'] = dict_merge
        args = []
        kwargs = {}
        a = self.node.args
        n_required = len(a.args) - len(a.defaults)
        for k, p in enumerate(self.params):
            if p in ('items', 'labels', 'constants'):
                args.append({'items': items_in, 'labels': labels, 'constants': consts}[p])
            elif k >= n_required:
                break            # optional parameters keep their defaults
            else:
                args.append(I.Opaque(p))
        try:
            it.call(self.func, args, kwargs)
        except _StepDone:
            return st
        raise I.Unsupported('%s: no for-loop over the item list was reached' % self.pass_name)


class ItemsToken(I.Opaque):
    def __init__(self):
        super().__init__('items')


class _StepDone(Exception):
    pass


def _set(env, name, value):
    """rebind `name` in the scope that holds it"""
    e = env
    while e is not None:
        if name in e.vars:
            e.vars[name] = value
            return
        e = e.parent
    env.vars[name] = value


class StrOfInt(I.Opaque):
    """str(n) for a symbolic integer n"""

    def __init__(self, value):
        super().__init__('str')
        self.value = value


I.ConstValueT = W.ConstValue


class Builder2(W.Builder):
    def __init__(self, run, it, env):
        super().__init__(run, it, env)
        self._named = {}

    def named_expr(self, key, tag):
        if key not in self._named:
            self._named[key] = self.mk_expr('%s%d' % (tag, len(self._named)))
        return self._named[key]


def make_hooks(builder):
    def b_len(it, v):
        if isinstance(v, W.SymSized):
            return v.length
        raise I.Unsupported('len of %r' % (v,))

    def opaque_attr(it, obj, name):
        if isinstance(obj, W.SymSized) and obj.tag == 'str' and name == 'encode':
            return I.Builtin('str.encode', lambda it2, a, k: obj.encoded)
        raise I.Unsupported('attribute %s of %r' % (name, obj))

    cs = {}

    def external(it, qual, args, kw):
        if qual == 'struct.calcsize':
            (fmt,) = args
            if isinstance(fmt, str):
                return NotImplemented
            key = fmt.t.get_id() if isinstance(fmt, I.Sym) else id(fmt)
            if key not in cs:
                v = it.dom.var('calcsize_%d' % len(cs))
                cs[key] = (z3.Bool('fmt_ok_%d' % len(cs)), v)
            ok, v = cs[key]
            if not it.run.branch(ok):
                I.py_raise('struct.error', 'bad char in struct format')
            it.run.assume(v.t >= 0)
            return v
        return NotImplemented

    def str_of(it, v):
        if I.is_intlike(v) and isinstance(v, I.Sym):
            return StrOfInt(v)
        return None

    parsed = {}

    def int_of_str(it, s_, base):
        key = s_.t.get_id()
        if key not in parsed:
            parsed[key] = (z3.Bool('is_int_%s' % s_.t), I.Sym('int', z3.Int('int_%s' % s_.t)))
        ok, v = parsed[key]
        if not it.run.branch(ok):
            I.py_raise('ValueError', 'invalid literal for int()')
        return v

    def opaque_eq(it, a, b):
        """equality of register FIELDS as written (not of the registers they name): same type and same spelling"""
        regs = it.mods['asm'].vars.get('REGISTERS', {}) if 'asm' in it.mods else {}
        if isinstance(a, RegOperand) and isinstance(b, RegOperand) and hasattr(a, 'sid') and hasattr(b, 'sid'):
            same = z3.And(a.is_str == b.is_str, z3.If(a.is_str, a.sid == b.sid, a.num.t == b.num.t))
            # one spelling names one register
            it.run.assume(z3.Implies(same, z3.And(a.num.t == b.num.t, a.valid == b.valid)))
            return I.Sym('bool', same)
        for x, y in ((a, b), (b, a)):
            if isinstance(x, RegOperand) and hasattr(x, 'sid') and isinstance(y, (str, int)) and not isinstance(y, bool):
                if isinstance(y, str):
                    same = z3.And(x.is_str, x.sid == I.str_id(y))
                    if y in regs:
                        it.run.assume(z3.Implies(same, z3.And(x.valid, x.num.t == regs[y])))
                    else:
                        it.run.assume(z3.Implies(same, z3.Not(x.valid)))
                else:
                    same = z3.And(z3.Not(x.is_str), x.num.t == y)
                return I.Sym('bool', same)
        return None

    return {'len': b_len, 'opaque_attr': opaque_attr, 'external': external, 'str_of': str_of, 'mutation': None, 'int_of_str': int_of_str,
            'opaque_eq': opaque_eq}


# ---------------------------------------------------------------------------
# obligations of the layout step (C03 O2, C09 O4, C20 O3)

def _t(it_dom, v):
    if isinstance(v, I.Sym):
        return v.t
    return z3.IntVal(int(v))


def constant_goals(ph, st):
    """resolve_constants on a Constant that is accepted (C11 O1): exactly one store constants[name] = value, value being the
    item's own expression evaluated with position None in ChainMap(constants, REGISTERS) - earlier constants and register
    names, no labels; the item itself is dropped"""
    g = {}
    w = st.consts.writes
    nm = st.item.fields.get('name')
    kid = nm.t if isinstance(nm, I.Sym) else (z3.IntVal(I.str_id(nm)) if isinstance(nm, str) else None)
    evs = [e for e in st.builder.evals if isinstance(e[4], I.Sym)]
    ok = len(w) == 1 and kid is not None and len(evs) == 1 and len(st.appended) == 0
    g['constant-defined-once-and-dropped'] = z3.BoolVal(bool(ok))
    if ok:
        (e, pos, env, line, res) = evs[0]
        g['constant-value-is-its-expression'] = z3.And(w[0][0] == kid, w[0][1] == res.t)
        regs = ph.h.env.vars['REGISTERS']
        env_ok = isinstance(env, I.ChainMapVal) and len(env.maps) == 2 and env.maps[0] is st.consts and env.maps[1] is regs and pos is None
        g['constant-environment-is-earlier-constants-over-register-names'] = z3.BoolVal(bool(env_ok))
        g['constant-error-line-is-item-line'] = z3.BoolVal(same_line_obj(line, st.item.fields.get('line')))
        # names that shadow a register or are numbers were refused before this point
        if isinstance(nm, I.Sym):
            g['constant-name-is-not-a-register-name'] = z3.And(*[nm.t != I.str_id(k) for k in regs if isinstance(k, str)])
    return g


def alias_goals(ph, st):
    """resolve_register_aliases (C11 O3): a register field that names a constant is replaced by that constant's value,
    every other field is carried over, the class is kept; an item without such a field is passed through untouched"""
    g = {}
    if len(st.appended) != 1:
        g['alias-one-item-out'] = z3.BoolVal(False)
        return g
    new = st.appended[0]
    regs = st.info.get('regs', {})
    if new is st.item:
        # untouched: no register field is a constant on this path
        g['alias-untouched-means-no-field-is-a-constant'] = z3.And(*[z3.Not(z3.And(r.is_str, st.consts.has0(r.sid))) for r in regs.values()]) if regs else z3.BoolVal(True)
        return g
    ok = new.cls is st.item.cls and list(new.fields) == list(st.item.fields)
    conds = []
    if ok:
        for k, v in st.item.fields.items():
            nv = new.fields[k]
            if k in regs:
                r = regs[k]
                isconst = z3.And(r.is_str, st.consts.has0(r.sid))
                if isinstance(nv, W.ConstValue):
                    conds.append(z3.And(isconst, nv.t == st.consts.val0(r.sid)))
                elif nv is v:
                    conds.append(z3.Not(isconst))
                else:
                    ok = False
            elif k == 'line':
                ok = ok and same_line_obj(nv, v)
            else:
                ok = ok and same_val(nv, v)
    g['alias-rebuilt-item-differs-only-in-resolved-register-fields'] = z3.And(z3.BoolVal(bool(ok)), *conds)
    return g


def carries_early_value(o, depth=0):
    """does the object (recursively through its fields) hold a value computed by an expression evaluation of this pass?"""
    if depth > 6:
        return False
    if isinstance(o, I.Sym):
        return any(str(v).startswith('ev_') and not str(v).startswith('ev_ok') for v in z3.z3util.get_vars(o.t))
    if isinstance(o, StrOfInt):
        return carries_early_value(o.value, depth + 1)
    if isinstance(o, I.SObj):
        return any(carries_early_value(v, depth + 1) for k, v in o.fields.items() if k != 'line')
    if isinstance(o, (list, tuple)):
        return any(carries_early_value(v, depth + 1) for v in o)
    return False


def same_val(a, b):
    """identity up to copy.deepcopy"""
    if a is b:
        return True
    if isinstance(a, I.SObj) and isinstance(b, I.SObj):
        return getattr(a, 'copied_from', a) is getattr(b, 'copied_from', b)
    if isinstance(a, I.Sym) and isinstance(b, I.Sym):
        return a.t.eq(b.t)
    if isinstance(a, (int, str, bool, tuple)) and type(a) is type(b):
        return a == b
    return False


def immediate_goals(ph, st, P):
    """resolve_immediates (C08 O2, C03 O4): the value baked into an item is its own expression, evaluated once,
    at the item's own output offset (the preceding auipc's offset for the jalr half of a far call/tail), in
    the environment ChainMap(constants, labels), with the item's line; every other field is carried over."""
    g = {}
    expr = st.item.fields['imm']
    if isinstance(expr, I.SObj) and expr.cls.name != 'SymExpr':
        # a concrete expression tree (the jalr half of a far call / tail, %lo(%offset(L))): the baked value must equal the
        # expression evaluated by its REAL eval methods at the auipc's offset in the live tables
        ok_shape = len(st.appended) == 1 and st.appended[0].cls is st.item.cls
        g['imm-evaluated-once-and-item-rebuilt'] = z3.BoolVal(bool(ok_shape))
        if ok_shape:
            it = st.it
            flag = st.item.fields.get('is_auipc_jump', False)
            at = it.binop(ast.Sub, st.P, 4) if flag is True else st.P
            want = it.call(it.getattr(getattr(expr, 'copied_from', expr), 'eval'), [at, I.ChainMapVal([st.consts, st.labels]), st.item.fields.get('line')], {})
            nv = st.appended[0].fields.get('imm')
            g['imm-baked-is-the-evaluated-value'] = (nv.t == want.t) if isinstance(nv, I.Sym) and isinstance(want, I.Sym) else z3.BoolVal(False)
        return g
    evs = [e for e in st.builder.evals if e[0] is expr and isinstance(e[4], I.Sym)]
    ok_shape = len(evs) == 1 and len(st.appended) == 1 and st.appended[0].cls is st.item.cls
    g['imm-evaluated-once-and-item-rebuilt'] = z3.BoolVal(bool(ok_shape))
    if not ok_shape:
        return g
    (e, pos, env, line, res) = evs[0]
    new = st.appended[0]
    flag = st.item.fields.get('is_auipc_jump', False)
    flag_t = flag.t if isinstance(flag, I.Sym) else z3.BoolVal(bool(flag))
    pos_t = pos.t if isinstance(pos, I.Sym) else z3.IntVal(int(pos))
    g['imm-evaluated-at-own-offset'] = pos_t == z3.If(flag_t, P - 4, P)
    env_ok = isinstance(env, I.ChainMapVal) and len(env.maps) == 2 and env.maps[0] is st.consts and env.maps[1] is st.labels
    g['imm-environment-is-constants-then-labels'] = z3.BoolVal(bool(env_ok))
    g['imm-error-line-is-item-line'] = z3.BoolVal(same_line_obj(line, st.item.fields.get('line')))
    nv = new.fields.get('imm')
    g['imm-baked-is-the-evaluated-value'] = (nv.t == res.t) if isinstance(nv, I.Sym) else z3.BoolVal(False)
    others = all((k in new.fields) and (same_val(new.fields[k], v) or (k == 'line' and same_line_obj(new.fields[k], v)))
                 for k, v in st.item.fields.items() if k != 'imm')
    g['other-fields-carried-over'] = z3.BoolVal(bool(others) and list(new.fields) == list(st.item.fields))
    return g


def same_line_obj(a, b):
    """two Line objects denote the same source line (deepcopy keeps file / number / contents)"""
    if a is b:
        return a is not None
    if not (isinstance(a, I.SObj) and isinstance(b, I.SObj)):
        return False
    return all(a.fields.get(k) is b.fields.get(k) and a.fields.get(k) is not None for k in ('file', 'number', 'contents'))


def explore_step(ph, cls, name, variant=None):
    holder = {}

    def body(run):
        st = ph.run_body(run, cls, name, variant)
        holder.setdefault('steps', {})[tuple(run.trace)] = st
        run.notes['step'] = st
        return st
    paths = I.explore(body, I.IntDom)
    return paths


def layout_obligations(ctx, ph, cls, name, paths, tag, replay):
    fn = 'asm.' + ph.pass_name
    n_ok = 0
    for i, p in enumerate(paths):
        if p.kind == 'raise':
            continue
        st = p.value
        n_ok += 1
        pc = list(p.pc)
        P = st.P.t
        # init establishes the invariant (checked once per pass, cheap to repeat)
        init_ok = (st.init_pos == 0 if st.pos_name else True) and st.init_out == []
        old = _t(None, st.old_size)
        new_total = z3.IntVal(0)
        for s in st.new_sizes:
            new_total = new_total + _t(None, s)
        goals = {}
        if st.pos_name:
            goals['pos'] = _t(None, st.pos_after) - P == new_total
        goals['shrink'] = z3.And(new_total >= 0, new_total <= old)
        # LabelsExact step on an arbitrary label value v
        v = z3.Int('label_v')
        R = z3.Int('R_between')
        v1 = st.labels.xf(v)
        Pn = P + new_total
        goals['labels-before'] = z3.Implies(v <= P, v1 == v)
        goals['labels-after'] = z3.Implies(z3.And(R >= 0, v == P + old + R), v1 == Pn + R)
        goals['out-append-only'] = z3.BoolVal(bool(st.out_same))
        # frame: derived items carry the current item's line
        same_line = all(isinstance(o, I.SObj) and same_line_obj(o.fields.get('line'), st.item.fields.get('line')) for o in st.appended)
        goals['line'] = z3.BoolVal(same_line)
        goals['init'] = z3.BoolVal(bool(init_ok))
        # every expression evaluated during the step sees the CURRENT tables (a live view of constants and labels)
        live = True
        for (e_, pos_, env_, line_, res_) in st.builder.evals:
            maps = env_.maps if isinstance(env_, I.ChainMapVal) else [env_]
            for m in maps:
                if getattr(m, 'is_snapshot', False):
                    live = False
        goals['expressions-evaluated-in-the-live-tables'] = z3.BoolVal(live)
        if ph.pass_name in ('transform_compressible', 'transform_pseudo_instructions', 'resolve_aligns', 'resolve_labels'):
            # C08 (3): values evaluated BEFORE the final layout (size choice of li / call / tail, compression predicates) may
            # only select a shape; no appended item may carry such a value (it would be stale once labels move)
            goals['decision-time-values-are-not-baked'] = z3.BoolVal(not any(carries_early_value(o) for o in st.appended))
        # stores into the label table: only resolve_labels defines labels, with the current position
        if ph.pass_name == 'resolve_labels' and cls.name == 'Label':
            w = st.labels.writes
            nm = st.item.fields.get('name')
            kid = nm.t if isinstance(nm, I.Sym) else (z3.IntVal(I.str_id(nm)) if isinstance(nm, str) else None)
            goals['label-defined-at-position'] = z3.And(w[0][0] == kid, w[0][1] == P) if (len(w) == 1 and kid is not None) else z3.BoolVal(False)
        else:
            goals['labels-no-store'] = z3.BoolVal(len(st.labels.writes) == 0)
        if ph.pass_name == 'resolve_constants' and cls.name == 'Constant':
            goals.update(constant_goals(ph, st))
        else:
            goals['constants-no-store'] = z3.BoolVal(len(st.consts.writes) == 0)
        if ph.pass_name == 'resolve_register_aliases':
            goals.update(alias_goals(ph, st))
        if ph.pass_name == 'resolve_immediates' and 'imm' in st.item.fields:
            goals.update(immediate_goals(ph, st, P))
        for gname, g in goals.items():
            ctx.add(Obligation('%s/%s/%s#%d' % (fn, tag, gname, i), pc, g, 'INT', func=fn,
                               kind='invariant', cover=(gname == 'pos' or (gname == 'shrink' and not st.pos_name)),
                               meta={'replay': replay, 'what': '%s on %s: step obligation %s fails' % (ph.pass_name, tag, gname),
                                     'key': '%s:%s:%s' % (ph.pass_name, tag, gname)}))
    return n_ok


# ---------------------------------------------------------------------------
# tasks

def classes_for_pass(h, pass_name):
    return item_classes(h)


def names_of(ph, cls):
    if cls.name == 'PseudoInstruction':
        return sorted(ph.h.env.vars['PSEUDO_INSTRUCTIONS'])
    if cls.name in ph.names:
        return ph.names[cls.name]
    return [None]


def task_layout_pass(ctx, pass_name, cls_name=None):
    import contracts.replay_passes  # noqa: registers replays
    h = Harness(ctx)
    ph = PassHarness(ctx, h, pass_name)
    ctx.under_contract(pass_name)
    for c in ('Item.size', 'Label.size', 'Constant.size', 'IncludeBytes.size', 'String.size', 'Sequence.size', 'Pack.size',
              'ShorthandPack.size', 'Align.size', 'Blob.size', 'Instruction.size', 'PseudoInstruction.size',
              'CompressedInstruction.size'):
        try:
            h.mod.func_node(c)
            ctx.inlined.add('asm.' + c + ' (real body executed at every call)')
        except KeyError:
            pass
    for cls in classes_for_pass(h, pass_name):
        if cls_name is not None and cls.name != cls_name:
            continue
        names = names_of(ph, cls)
        concrete_names = pass_name in ('transform_compressible', 'transform_pseudo_instructions') and \
            (cls.issub(h.env.vars['Instruction']))
        if pass_name == 'transform_compressible' and cls.issub(h.env.vars['PseudoInstruction']):
            concrete_names = False
        if pass_name == 'transform_pseudo_instructions' and not cls.issub(h.env.vars['PseudoInstruction']):
            concrete_names = False
        todo = names if concrete_names else [('any', names)]
        for nm in todo:
            if isinstance(nm, tuple):
                tag = cls.name
                name_arg = SymName(nm[1])
            else:
                tag = '%s[%s]' % (cls.name, nm)
                name_arg = nm
            try:
                paths = explore_step_named(ph, cls, name_arg)
                if cls.name == 'ITypeInstruction' and (nm == 'jalr' or isinstance(nm, tuple)) and \
                        pass_name in ('transform_compressible', 'resolve_immediates', 'resolve_aligns', 'resolve_register_aliases'):
                    # plus the concrete shape of the jalr half of a far call / tail
                    paths = paths + explore_step_named(ph, cls, 'jalr', variant='auipc-jump')
                if pass_name in ('transform_compressible', 'resolve_immediates') and isinstance(nm, str):
                    shape = {'UTypeInstruction': {'lui': 'imm-hi', 'auipc': 'imm-hi'}, 'ITypeInstruction': {'addi': 'imm-lo', 'lw': 'imm-lo', 'jalr': 'imm-lo'},
                             'STypeInstruction': {'sw': 'imm-lo'}}.get(cls.name, {}).get(nm)
                    if shape:
                        paths = paths + explore_step_named(ph, cls, nm, variant=shape)
            except I.Unsupported as e:
                ctx.undecide('asm.%s/%s' % (pass_name, tag), 'construct not modelled: %s' % e)
                continue
            replay = ('pass_step', {'pass': pass_name, 'cls': cls.name, 'name': nm if isinstance(nm, str) else None})
            n = layout_obligations(ctx, ph, cls, nm, paths, tag, replay)
            exception_obligations(ctx, ph, cls, tag, paths, replay)
            if pass_name == 'transform_compressible' and cls.issub(h.env.vars['Instruction']):
                from contracts import compress as C
                C.rule_obligations(ctx, ph, cls, nm if isinstance(nm, str) else None, tag, paths)
            if pass_name == 'transform_pseudo_instructions' and cls.name == 'PseudoInstruction' and isinstance(nm, str):
                from contracts import pseudo as PS
                PS.effect_obligations(ctx, ph, nm, tag, paths)
                PS.constructed_item_obligations(ctx, ph, nm, tag, paths)
            if n == 0 and not any(p.kind == 'raise' for p in paths):
                ctx.errors.append('asm.%s/%s: no path through the loop body' % (pass_name, tag))
            if paths and all(p.kind == 'raise' and p.exc_name != 'AssemblerError' for p in paths):
                # every path of the step ends in an internal exception: nothing above was established for this item class
                # (vacuous for every property but C15).  Either the pass now crashes on every such item - the replay shows it -
                # or the executor mis-models the step: undecided
                ctx.add(Obligation('asm.%s/%s/some-path-completes-the-step' % (pass_name, tag), [], z3.BoolVal(False), 'finite',
                                   func='asm.' + pass_name, kind='invariant', cover=False,
                                   meta={'replay': replay, 'what': '%s raises %s on every %s item' % (pass_name, paths[0].exc_name, tag)}))


class SymName:
    def __init__(self, names):
        self.names = names


def explore_step_named(ph, cls, name_arg, variant=None):
    def body(run):
        if isinstance(name_arg, SymName):
            if name_arg.names == [None]:
                nm = I.Sym('str', z3.Int('item_name'))
            else:
                nm = I.Sym('str', z3.Int('item_name'))
                run.assume(z3.Or(*[nm.t == I.str_id(k) for k in name_arg.names]))
        else:
            nm = name_arg
        st = ph.run_body(run, cls, nm, variant)
        return st
    return I.explore(body, I.IntDom)


OUTSIDE_C15 = [
    # (pass or None, exception class, substring of the message or None, why it is outside the property's fault list)
    (None, 'struct.error', 'bad char in struct format', "an invalid `pack` format string: not one of the listed fault classes"),
    ('resolve_include_bytes', 'AssertionError', None, 'the file changed size between read_lines and resolve_include_bytes (environment race)'),
]


def exception_obligations(ctx, ph, cls, tag, paths, replay):
    """exceptional frame of the pass (C15 / C12): a path that leaves the loop body by an exception raises
    AssemblerError carrying the current item's line.  Escapes outside the property's own list of fault classes are
    recorded as observations (OUTSIDE_C15)."""
    fn = 'asm.' + ph.pass_name
    for i, p in enumerate(paths):
        if p.kind != 'raise':
            continue
        exc = p.value
        st = p.notes.get('step')
        name = exc.cls.name
        msg = exc.fields.get('args', ('',))
        msg = msg[0] if msg and isinstance(msg[0], str) else ''
        if name == 'AssemblerError':
            ln = exc.fields.get('line')
            ok = st is not None and same_line_obj(ln, st.item.fields.get('line'))
            ctx.add(Obligation('%s/%s/C15-error-names-the-item-line#%d' % (fn, tag, i), list(p.pc), z3.BoolVal(bool(ok)), 'INT', func=fn,
                               kind='raises', cover=False, meta={'replay': ('fault_bank', {'pass': ph.pass_name}), 'props': ['C15'],
                                                                 'what': '%s raises AssemblerError with a line that is not the faulty item line' % ph.pass_name}))
            continue
        outside = next((o for o in OUTSIDE_C15 if (o[0] is None or o[0] == ph.pass_name) and o[1] == name and (o[2] is None or o[2] in msg)), None)
        if outside is not None:
            note = 'observation (outside C15): %s on %s raises %s - %s' % (ph.pass_name, tag, name, outside[3])
            if note not in ctx.notes:
                ctx.notes.append(note)
            continue
        ctx.add(Obligation('%s/%s/C15-only-the-assembler-error-escapes#%d(%s)' % (fn, tag, i, name), list(p.pc), z3.BoolVal(False), 'INT',
                           func=fn, kind='raises', cover=False,
                           meta={'replay': ('fault_bank', {'pass': ph.pass_name, 'exc': name}), 'props': ['C15'],
                                 'what': '%s on %s lets a raw %s escape (%s)' % (ph.pass_name, tag, name, msg[:80])}))
