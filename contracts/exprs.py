"""Contracts of the expression classes (asm.py:1175-1262), bodies taken from /repo.  DESIGN 4 C08 (1).

  Offset(r).eval(p, env, line)      = env[r] - p            ; raises AssemblerError(line) iff r not in env
  Position(r, e).eval(p, env, line) = e.eval(p, env, line) + env[r] ; raises AssemblerError(line) iff r not in env
  Hi/Lo                             : contracts/relocate.py (obligations_hi_lo_eval)
env is a ChainMap(constants, labels) of symbolic tables (contracts/world.py)."""
import z3

from pyvc import interp as I
from pyvc.vc import Obligation
from contracts.encoders import Harness
from contracts import world as W


def _run(h, cls_name, mk_fields):
    holder = {}

    def body(run):
        it = I.Interp(run, h.base_it.mods)
        labels, consts = W.SymLabels(run), W.SymConsts(run)
        env = I.ChainMapVal([consts, labels])
        ref = I.Sym('str', z3.Int('ref'))
        line = I.SObj(h.env.vars['Line'], {'file': I.Opaque('f'), 'number': I.Opaque('n'), 'contents': I.Opaque('c')})
        pos = run.dom.var('position')
        inner = I.SObj(I.ClassVal('Inner', [h.env.vars['Expr']], {'eval': I.Builtin('inner.eval', lambda it_, a, k: run.dom.var('inner_value'))}), {})
        obj = it.instantiate(h.env.vars[cls_name], mk_fields(ref, inner), {})
        holder.update(labels=labels, consts=consts, line=line)
        run.notes['world'] = (labels, consts, line)
        return it.call(it.getattr(obj, 'eval'), [pos, env, line], {})
    return I.explore(body, I.IntDom), holder


def obligations_exprs(ctx, h):
    for cls_name, mk, has_inner in (('Offset', lambda ref, inner: [ref], False), ('Position', lambda ref, inner: [ref, inner], True)):
        ctx.under_contract('%s.eval' % cls_name)
        paths, _ = _run(h, cls_name, mk)
        ref = z3.Int('ref')
        pos = z3.Int('position')
        for i, p in enumerate(paths):
            labels, consts, line = p.notes['world']
            present = z3.Or(consts.has0(ref), labels.has0(ref))
            value = z3.If(consts.has0(ref), consts.val0(ref), labels.val0(ref))      # ChainMap: first map wins
            rp = ('expr_eval', {'cls': cls_name})
            if p.kind == 'raise':
                e = p.value
                ok = e.cls.name == 'AssemblerError' and e.fields.get('line') is line
                goal = z3.And(z3.BoolVal(ok), z3.Not(present))
            else:
                want = (value - pos) if cls_name == 'Offset' else (z3.Int('inner_value') + value)
                goal = z3.And(present, p.value.t == want) if isinstance(p.value, I.Sym) else z3.BoolVal(False)
            ctx.add(Obligation('asm.%s.eval/%s#%d' % (cls_name, p.kind, i), list(p.pc), goal, 'INT', func='asm.%s.eval' % cls_name,
                               kind='post', meta={'replay': rp}))


PY_EVAL_EXCEPTIONS = ['SyntaxError', 'TypeError', 'NameError', 'ZeroDivisionError', 'ValueError', 'OverflowError', 'AttributeError',
                      'KeyError', 'IndexError', 'RuntimeError', 'ArithmeticError', 'AssertionError', 'UnicodeDecodeError']


def obligations_arithmetic_eval(ctx, h):
    """Arithmetic.eval (the only caller of Python's eval) against the contract every pass relies on: it returns an int or
    raises AssemblerError with the line it was given - whatever eval does: eval may return a value of any type or raise ANY
    exception (a representative of every builtin exception family Python's eval of an expression can raise is tried)"""
    ctx.under_contract('Arithmetic.eval')
    ctx.trust('A-EVAL: Python eval of an expression either returns a value or raises an exception derived from Exception')
    Arithmetic = h.env.vars['Arithmetic']
    outcomes = ['int', 'bool', 'float', 'str', 'none'] + PY_EVAL_EXCEPTIONS
    for charlit in (False, True):
        for oc in outcomes:
            if charlit and oc not in ('int', 'TypeError', 'UnicodeDecodeError', 'str'):
                continue

            def body(run, oc=oc, charlit=charlit):
                line = I.SObj(h.env.vars['Line'], {'file': I.Opaque('f'), 'number': I.Opaque('n'), 'contents': I.Opaque('c')})
                run.notes['line'] = line

                def external(it, qual, args, kw):
                    if qual == 'eval':
                        if oc == 'int':
                            return run.dom.var('eval_result')
                        if oc == 'bool':
                            return True
                        if oc == 'float':
                            return 1.5
                        if oc == 'str':
                            return 'text'
                        if oc == 'none':
                            return None
                        I.py_raise(oc, 'raised inside eval')
                    return NotImplemented

                def symstr_method(it, sv, name):
                    if name in ('startswith', 'endswith'):
                        return I.Builtin(name, lambda it2, a, k: charlit)
                    return None

                def symstr_index(it, sv, idx):
                    return I.Opaque('charlit-body')

                def opaque_call(it, f, args, kw):
                    raise I.Unsupported('call of %r' % f)

                def b_ord(it, c):
                    if oc == 'int':
                        return run.dom.var('ord_result')
                    I.py_raise('TypeError', 'ord() expected a character')

                def unescape(it, f, args, kwargs):
                    if oc == 'UnicodeDecodeError':
                        I.py_raise('UnicodeDecodeError', 'truncated escape')
                    return I.Opaque('unescaped')
                it = I.Interp(run, h.base_it.mods, hooks={'external': external, 'symstr_method': symstr_method, 'symstr_index': symstr_index,
                                                          'ord': b_ord}, contracts={'unescape': unescape})
                obj = it.instantiate(Arithmetic, [I.Sym('str', z3.Int('expr_text'))], {})
                return it.call(it.getattr(obj, 'eval'), [run.dom.var('position'), I.Opaque('env'), line], {})
            try:
                paths = I.explore(body, I.IntDom)
            except I.Unsupported as e:
                ctx.undecide('asm.Arithmetic.eval/%s' % oc, str(e))
                continue
            for i, p in enumerate(paths):
                if p.kind == 'return':
                    ok = oc == 'int' and isinstance(p.value, I.Sym) and p.value.sort == 'int'
                else:
                    e = p.value
                    ok = e.cls.name == 'AssemblerError' and e.fields.get('line') is p.notes.get('line')
                ctx.add(Obligation('asm.Arithmetic.eval/%s/eval-%s#%d' % ('char-literal' if charlit else 'expression', oc, i), list(p.pc),
                                   z3.BoolVal(bool(ok)), 'INT', func='asm.Arithmetic.eval', kind='raises', cover=False,
                                   meta={'replay': ('fault_bank', {'exc': 'raw'}), 'props': ['C15', 'C11', 'C08'],
                                         'what': 'Arithmetic.eval lets %s escape / returns a non-integer when Python eval %s' % (
                                             p.exc_name if p.kind == 'raise' else type(p.value).__name__, 'returns ' + oc if oc in ('int', 'bool', 'float', 'str', 'none') else 'raises ' + oc)}))


def replay_expr_eval(ctx, d, model):
    from pyvc.real import real
    r = real()
    cls = d['cls']
    bad = []
    for env, ref, pos in [({'L': 100}, 'L', 40), ({'L': 7}, 'L', 1000), ({}, 'L', 0), ({'K': -5, 'L': 9}, 'K', 3)]:
        expr = "Offset(%r)" % ref if cls == 'Offset' else "Position(%r, Arithmetic('16'))" % ref
        obs = r.req({'op': 'method', 'obj': {'__expr__': expr}, 'name': 'eval', 'args': [pos, env, {'__line__': ['f.asm', 3, 'x']}]})
        if ref in env:
            want = env[ref] - pos if cls == 'Offset' else 16 + env[ref]
            if obs.get('ok') != want:
                bad.append((expr, env, pos, obs, want))
        elif obs.get('exc') != 'AssemblerError' or obs.get('line') != ['f.asm', 3]:
            bad.append((expr, env, pos, obs, 'AssemblerError at f.asm:3'))
    if not bad:
        return None
    return {'confirmed': True, 'key': '%s.eval' % cls, 'what': '%s evaluated on %r at position %d gives %r, expected %r' % bad[0],
            'input': {'expr': bad[0][0], 'env': bad[0][1], 'position': bad[0][2]}, 'observed': bad[0][3]}


from pyvc import replays as _R  # noqa: E402
_R.register('expr_eval', 'contracts.exprs:replay_expr_eval')


def task_exprs(ctx):
    h = Harness(ctx)
    obligations_exprs(ctx, h)
    obligations_arithmetic_eval(ctx, h)
