"""Contracts for bronzebeard/dfu.py.  DESIGN 3.7, 4 C18 / C19.

(1) request builders and dfu_get_status (straight-line): the bytes handed to ctrl_transfer, the sleep contract.
(2) dfu.cli_main with the loop rule (no unrolling): an arbitrary iteration of each `for page in range(pages)` loop
    and of each polling `while` loop is executed from a havocked state (variables assigned in the loop are
    arbitrary), after the loop only the negated guard is known.  PARTIAL correctness: termination of the polling
    loops depends on the device and is not proved.
    Obligations:   C19 (a) every request is issued on a path where len(firmware) <= page_size * page_count
                   C19 (b) an erase/write iteration that completes normally saw status OK last
                   C18 (2) page arithmetic: padded length == 1024 * pages, padding minimal and zero, addresses of every erase /
                           set-address inside the device flash and page aligned, chunk == firmware[1024*page : 1024*page + 1024]
                   C18     no non-GETSTATUS request is issued while the last reported state is dfuDNBUSY
The device is a dependency: its behaviour (DESIGN 3.7) is ASSUMED; GETSTATUS responses are arbitrary 6 bytes."""
import ast

import z3

from pyvc import interp as I
from pyvc.vc import Obligation
from contracts import world as W

DNBUSY = 4


class Packed(W.SymSized):
    def __init__(self, fmt, values, length):
        super().__init__('bytes', length)
        self.fmt, self.values = fmt, values


class SymRange:
    def __init__(self, lo, hi):
        self.lo, self.hi = lo, hi


def load(ctx):
    mod = ctx.module('dfu')
    it, env = I.module_env(mod)
    return mod, it, env


def make_interp(run, base_it, log, device=None, modular=False):
    eff = run.effects
    dom = run.dom
    counter = {'n': 0}

    def fresh_int(name, lo=None, hi=None):
        counter['n'] += 1
        v = dom.var('%s_%d' % (name, counter['n']))
        if lo is not None:
            run.assume(v.t >= lo)
        if hi is not None:
            run.assume(v.t <= hi)
        return v

    def ctrl_transfer(it, args, kw):
        a = list(args)
        reqtype, request = a[0], a[1]
        wvalue = kw.get('wValue', a[2] if len(a) > 2 else 0)
        data = kw.get('data_or_wLength', a[4] if len(a) > 4 else None)
        last_state = run.notes.get('last_state')
        eff.append(('ctrl', reqtype, request, wvalue, data, len(run.pc), last_state, run.notes.get('loop'), run.notes.get('last_status')))
        if request == 3:
            if data == 6:
                # DFU 1.1 section 6.1.2: bStatus, bwPollTimeout[3], bState, iString - six arbitrary bytes; what the device
                # reported is fixed by the response itself, not by how the code decodes it (unpack, indexing, slices)
                items = [fresh_int('resp', 0, 255) for _ in range(6)]
                resp = I.ByteSeq(items)
                resp.is_status_response = True
                resp.status_recorded = True
                run.notes['last_status'] = items[0]
                run.notes['last_state'] = items[4]
                run.notes['resp_items'] = items
                eff.append(('status', items[0], items[4], len(run.pc)))
                return resp
            resp = W.SymSized('bytes', 6)
            resp.is_status_response = True
            return resp
        if request == 4:
            return fresh_int('clr_count')
        return fresh_int('dnload_count')

    dev = I.ModuleStub('device', {'ctrl_transfer': I.Builtin('ctrl_transfer', ctrl_transfer)})
    dev.attrs['serial_number'] = I.Opaque('serial-raw')

    def external(it, qual, args, kw):
        if qual == 'struct.pack':
            fmt = args[0]
            vals = list(args[1:])
            import struct
            n = struct.calcsize(fmt)
            codes = fmt.lstrip('<>=!@')
            from contracts.emit import CODES
            for c, v in zip(codes, vals):
                sz, sg = CODES[c]
                lo, hi = (-(1 << (8 * sz - 1)), (1 << (8 * sz - 1)) - 1) if sg else (0, (1 << (8 * sz)) - 1)
                if I.is_sym(v):
                    ok = it.and_(it.compare(ast.GtE(), v, lo), it.compare(ast.LtE(), v, hi))
                    if not it.truth(ok):
                        I.py_raise('struct.error', 'argument out of range')
                elif not (lo <= v <= hi):
                    I.py_raise('struct.error', 'argument out of range')
            return Packed(fmt, vals, n)
        if qual == 'struct.unpack':
            fmt, buf = args
            import re as _re
            out = []
            body_fmt = fmt.lstrip('<>=!@')
            if not _re.fullmatch(r'(\d*[Bbsx])+', body_fmt):
                raise I.Unsupported('struct.unpack format %r' % fmt)
            given = list(buf.items) if isinstance(buf, I.ByteSeq) else None
            if given is not None:
                import struct as _struct
                if _struct.calcsize(fmt) != len(given):
                    I.py_raise('struct.error', 'unpack requires a buffer of %d bytes' % _struct.calcsize(fmt))

            def take(k):
                if given is None:
                    return [fresh_int('resp', 0, 255) for _ in range(k)]
                r = given[:k]
                del given[:k]
                return r
            for cnt, c in _re.findall(r'(\d*)([Bbsx])', body_fmt):
                k = int(cnt) if cnt else 1
                if c == 'B':
                    out += take(k)
                elif c == 's':
                    out.append(I.ByteSeq(take(k)))
                elif c == 'x':
                    take(k)
                else:
                    raise I.Unsupported('struct.unpack code %r' % c)
            flat = []
            for x in out:
                flat += x.items if isinstance(x, I.ByteSeq) else [x]
            out_flat = flat
            if getattr(buf, 'is_status_response', False) and len(out_flat) == 6 and not getattr(buf, 'status_recorded', False):
                # DFU 1.1 section 6.1.2: bStatus, bwPollTimeout[3], bState, iString
                run.notes['last_status'] = out_flat[0]
                run.notes['last_state'] = out_flat[4]
                eff.append(('status', out_flat[0], out_flat[4], len(run.pc)))
            return tuple(out)
        if qual == 'time.sleep':
            eff.append(('sleep', args[0], len(run.pc), None))
            return None
        if qual == 'argparse.ArgumentParser':
            ns = I.SObj(I.ClassVal('Namespace', [I.EXC['object']], {}), {'device_id': I.Sym('str', z3.Int('device_id')),
                                                                      'binary_file': I.Sym('str', z3.Int('binary_file'))})
            return I.ModuleStub('parser', {'add_argument': I.Builtin('add_argument', lambda it, a, k: None),
                                           'parse_args': I.Builtin('parse_args', lambda it, a, k: ns)})
        if qual in ('os.path.abspath', 'os.path.dirname', 'os.path.join'):
            return I.Opaque('path')
        if qual == 'usb.backend.libusb1.get_backend':
            return I.Opaque('backend')
        if qual == 'usb.core.find':
            if it.run.branch(z3.Bool('device_found')):
                return dev
            return None
        if qual == 'open':
            eff.append(('open', args[0], args[1] if len(args) > 1 else 'r'))
            return I.Opaque('fwfile')
        return NotImplemented

    def opaque_attr(it, obj, name):
        if isinstance(obj, I.Opaque):
            if obj.tag == 'fwfile':
                if name == 'read':
                    def read(it2, a, k):
                        # firmware_len is the length of the FILE (what the property speaks of); read(k) yields min(length, k) bytes
                        n = dom.var('firmware_len')
                        run.assume(n.t >= 0)
                        if k:
                            raise I.Unsupported('file.read with keyword arguments')
                        if a and a[0] is not None and not (isinstance(a[0], int) and a[0] < 0):
                            lim = dom.lift(a[0])
                            got = fresh_int('bytes_read', 0)
                            run.assume(z3.And(got.t <= n.t, got.t <= lim.t, z3.Or(got.t == n.t, got.t == lim.t)))
                            fw = W.SymSized('bytes', got)
                        else:
                            fw = W.SymSized('bytes', n)
                        run.notes['firmware'] = fw
                        return fw
                    return I.Builtin('read', read)
                return I.Builtin(name, lambda it2, a, k: None)
            if obj.tag == 'serial-raw' and name == 'encode':
                return I.Builtin('encode', lambda it2, a, k: I.Opaque('serial-bytes'))
            if obj.tag == 'serial-bytes' and name == 'decode':
                return I.Builtin('decode', lambda it2, a, k: I.Opaque('serial'))
        raise I.Unsupported('attribute %s of %r' % (name, obj))

    def opaque_index(it, obj, idx):
        if isinstance(obj, I.Opaque) and obj.tag == 'serial':
            return I.Sym('str', z3.Int('sn_char_%s' % idx))
        return I.Opaque('element')

    def symstr_method(it, s, name):
        if name == 'split':
            return I.Builtin('split', lambda it2, a, k: [I.Sym('str', z3.Int('vendor_s')), I.Sym('str', z3.Int('product_s'))])
        return None

    def int_of_str(it, s, base):
        return I.Sym('int', z3.Int('int_' + str(s.t)))

    def b_len(it, v):
        if isinstance(v, (W.SymSized, I.ByteSeq)):
            return v.length
        if isinstance(v, I.SliceOf):
            n = fresh_int('slice_len', 0)
            return n
        raise I.Unsupported('len of %r' % (v,))

    def b_range(it, args):
        lo, hi = (0, args[0]) if len(args) == 1 else (args[0], args[1])
        r = SymRange(lo, hi)
        r.step = args[2] if len(args) > 2 else 1
        if I.is_sym(r.step) or r.step <= 0:
            raise I.Unsupported('range with a symbolic or non-positive step')
        return r

    def dict_pick(it, d, key, cands):
        # a description string picked from a table by a symbolic code: only printed
        if all(isinstance(d[k], str) for k in cands):
            return I.Opaque('str')
        return None

    def binop(it, op, a, b):
        # struct.pack('<B', c) + struct.pack('<I', a): with an explicit byte order there is no padding, the concatenation is
        # the packing of the concatenated format
        if op is ast.Add and isinstance(a, Packed) and isinstance(b, Packed) and a.fmt[:1] in '<>!=' and a.fmt[:1] == b.fmt[:1]:
            return Packed(a.fmt + b.fmt[1:], list(a.values) + list(b.values), it.binop(ast.Add, a.length, b.length))
        # firmware + b'..' * n  /  firmware + padding
        if op is ast.Add and all(isinstance(x, (W.SymSized, bytes, I.SymRepeat)) for x in (a, b)):
            la, lb = I._b_len(it, [a], {}) if not isinstance(a, W.SymSized) else a.length, I._b_len(it, [b], {}) if not isinstance(b, W.SymSized) else b.length
            out = W.SymSized('bytes', it.binop(ast.Add, la, lb))
            unit = b.unit if isinstance(b, I.SymRepeat) else (b if isinstance(b, bytes) else None)
            if isinstance(unit, bytes):
                log.append(('accumulate', 'concat', 'firmware', unit if set(unit) <= {0} and unit else unit))
            out.parts = (a, b)
            return out
        return NotImplemented

    hooks = {'binop': binop, 'dict_pick': dict_pick, 'external': external, 'opaque_attr': opaque_attr, 'opaque_index': opaque_index, 'symstr_method': symstr_method,
             'int_of_str': int_of_str, 'len': b_len, 'range': b_range}
    def get_status_contract(it, f, args, kw):
        """callee contract of dfu_get_status, as discharged by dfu.dfu_get_status/sleeps-the-requested-poll-time-and-returns-status-state
        (obligations_helpers): one GETSTATUS request of 6 bytes, then a sleep of bwPollTimeout / 1000, returns (bStatus, bState).
        cli_main is checked against this contract, not against the body"""
        if len(args) != 1 or kw:
            raise I.Unsupported('dfu_get_status called with other arguments than (device)')
        d = args[0]
        if d is not dev:
            raise I.Unsupported('dfu_get_status on another device object')
        resp = ctrl_transfer(it, [0xa1, 3], {'data_or_wLength': 6, 'timeout': 1000})
        out = external(it, 'struct.unpack', ['<BBBBBB', resp], {})
        pt = it.binop(ast.Add, it.binop(ast.Add, it.binop(ast.Mult, out[3], 65536), it.binop(ast.Mult, out[2], 256)), out[1])
        eff.append(('sleep', I.Ratio(pt, 1000), len(run.pc), out[0]))
        return (out[0], out[4])
    contracts = {}
    if modular:
        contracts['dfu_get_status'] = get_status_contract
    it = I.Interp(run, base_it.mods, hooks=hooks, contracts=contracts)
    install_loop_rules(it, run, log, fresh_int)
    # sys.platform is a string
    return it, dev


def assigned_names(stmts):
    out = set()
    for s in stmts:
        for n in ast.walk(s):
            if isinstance(n, ast.Name) and isinstance(n.ctx, ast.Store):
                out.add(n.id)
    return out


def names_assigned_only_on_the_way_out(body):
    """names every store of which (in the body of the summarised loop) is a plain assignment in a block that ends in `break`
    with nothing but plain assignments / expression statements between the store and the break: at every loop head and after
    a normal completion such a name still holds its value from before the loop, so it is not havocked"""
    stores = {}

    def block(stmts, in_inner_loop):
        ends_in_break = bool(stmts) and isinstance(stmts[-1], ast.Break) and not in_inner_loop
        for idx, st in enumerate(stmts):
            simple_tail = all(isinstance(x, (ast.Assign, ast.AugAssign, ast.Expr)) for x in stmts[idx + 1:-1])
            if isinstance(st, ast.Assign) and all(isinstance(t, ast.Name) for t in st.targets):
                for t in st.targets:
                    stores.setdefault(t.id, []).append(ends_in_break and simple_tail)
                for n in ast.walk(st.value):
                    if isinstance(n, ast.Name) and isinstance(n.ctx, ast.Store):      # walrus
                        stores.setdefault(n.id, []).append(False)
                continue
            if isinstance(st, (ast.If, ast.With, ast.Try)):
                for fld in ('body', 'orelse', 'finalbody'):
                    block(getattr(st, fld, []) or [], in_inner_loop)
                for h in getattr(st, 'handlers', []):
                    if h.name:
                        stores.setdefault(h.name, []).append(False)
                    block(h.body, in_inner_loop)
                for n in ast.walk(st.test) if isinstance(st, ast.If) else []:
                    if isinstance(n, ast.Name) and isinstance(n.ctx, ast.Store):
                        stores.setdefault(n.id, []).append(False)
                for it_ in getattr(st, 'items', []):
                    for n in ast.walk(it_):
                        if isinstance(n, ast.Name) and isinstance(n.ctx, ast.Store):
                            stores.setdefault(n.id, []).append(False)
                continue
            if isinstance(st, (ast.While, ast.For)):
                for n in ast.walk(st):
                    if isinstance(n, ast.Name) and isinstance(n.ctx, ast.Store):
                        stores.setdefault(n.id, []).append(False)
                continue
            for n in ast.walk(st):
                if isinstance(n, ast.Name) and isinstance(n.ctx, ast.Store):
                    stores.setdefault(n.id, []).append(False)
    block(list(body), False)
    return {nm for nm, flags in stores.items() if flags and all(flags)}


def havoc(it, env, names, fresh_int, tag):
    for nm in sorted(names):
        try:
            cur = env.lookup(nm)
        except KeyError:
            continue
        if I.is_intlike(cur):
            env.vars[nm] = fresh_int('%s_%s' % (tag, nm))
        elif isinstance(cur, (W.SymSized, I.SymBytes, I.ByteBuf, bytes)):
            ln = fresh_int('%s_len_%s' % (tag, nm), 0)
            env.vars[nm] = W.SymSized('bytes', ln)
        else:
            env.vars[nm] = I.Opaque('havoc:' + nm)


def install_loop_rules(it, run, log, fresh_int):
    state = {'for': 0, 'while': 0}

    def for_hook(itp, s, env, rng):
        if not isinstance(rng, SymRange):
            # re-evaluation must not happen twice for side-effecting iterables; ranges are pure
            return None
        k = state['for']
        state['for'] += 1
        names = (assigned_names(s.body) - names_assigned_only_on_the_way_out(s.body)) | ({s.target.id} if isinstance(s.target, ast.Name) else set())
        lo, hi = rng.lo, rng.hi
        # accumulate-constant loop:  for _ in range(n): X += <constant bytes>
        if len(s.body) == 1 and isinstance(s.body[0], ast.AugAssign) and isinstance(s.body[0].op, ast.Add) \
                and isinstance(s.body[0].target, ast.Name) and isinstance(s.body[0].value, ast.Constant) \
                and isinstance(s.body[0].value.value, bytes):
            x = s.body[0].target.id
            cur = env.lookup(x)
            unit = s.body[0].value.value
            count = itp.binop(ast.Sub, hi, lo)
            pos = itp.compare(ast.Gt(), count, 0)
            cur_len = I._b_len(itp, [cur], {})
            if itp.truth(pos):
                new_len = itp.binop(ast.Add, cur_len, itp.binop(ast.Mult, count, len(unit)))
            else:
                new_len = cur_len
            new = W.SymSized('bytes', new_len)
            new.parts = (cur, unit, count)
            env.vars[x] = new
            log.append(('accumulate', k, x, unit))
            return True
        run.notes['loop'] = ('for', k)
        skip = itp.compare(ast.LtE(), hi, lo)
        if itp.truth(skip):
            run.notes['loop'] = None
            return True
        havoc(itp, env, names, fresh_int, 'for%d' % k)
        kv = fresh_int('iter%d' % k)
        run.assume(itp.dom.lift(kv).t >= itp.dom.lift(lo).t)
        run.assume(itp.dom.lift(kv).t < itp.dom.lift(hi).t)
        step = getattr(rng, 'step', 1)
        if step != 1:
            run.assume((itp.dom.lift(kv).t - itp.dom.lift(lo).t) % step == 0)
        run.notes.setdefault('ranges', {})[k] = (lo, hi, step)
        itp.assign(s.target, kv, env)
        run.notes.setdefault('iters', {})[k] = kv
        start = len(run.effects)
        try:
            itp.exec_block(s.body, env)
        except I._Continue:
            pass
        except I._Break:
            # the loop is left from an arbitrary iteration: the variables keep the values of that iteration (no havoc), the
            # iteration did not complete; what may follow a break is decided by the loop-break obligations of cli_main
            run.effects.append(('loop-break', ('for', k), start, len(run.pc), run.notes.get('last_status'), run.notes.get('last_state'), kv))
            run.notes['loop'] = None
            return True
        run.effects.append(('body-end', ('for', k), start, len(run.pc), run.notes.get('last_status'), run.notes.get('last_state')))
        havoc(itp, env, names, fresh_int, 'after_for%d' % k)
        run.notes['last_state'] = None
        run.notes['last_status'] = None
        run.notes['loop'] = None
        return True

    def while_hook(itp, s, env):
        k = state['while']
        state['while'] += 1
        names = assigned_names(s.body)
        # the guard is evaluated (it may raise); whether it holds on entry does not matter: the state after the loop
        # (arbitrary values of the assigned variables with the guard false) subsumes the zero-iteration case
        itp.eval(s.test, env)
        havoc(itp, env, names, fresh_int, 'while%d' % k)
        if not itp.truth(itp.eval(s.test, env)):
            raise I.Infeasible()
        try:
            itp.exec_block(s.body, env)
        except I._Continue:
            pass
        except I._Break:
            raise I.Unsupported('break out of a summarised loop')
        havoc(itp, env, names, fresh_int, 'after_while%d' % k)
        # the status / state variables now hold an arbitrary later response
        if itp.truth(itp.eval(s.test, env)):
            raise I.Infeasible()
        # ghost: the last response is the one the loop variables hold
        for nm in names:
            v = env.vars.get(nm)
            if nm == 'state' and I.is_sym(v):
                run.notes['last_state'] = v
            if nm == 'status' and I.is_sym(v):
                run.notes['last_status'] = v
        return True

    it.hooks['for'] = for_hook
    it.hooks['while'] = while_hook


# ---------------------------------------------------------------------------

def obligations_builders(ctx, base_it, env):
    """(1) request builders, get_status"""
    consts = {k: env.vars[k] for k in ('REQUEST_DFU_DNLOAD', 'REQUEST_DFU_GETSTATUS', 'REQUEST_DFU_CLRSTATUS', 'DFUSE_CMD_ERASE_PAGE',
                                       'DFUSE_CMD_SET_ADDRESS')}
    spec_ok = consts == {'REQUEST_DFU_DNLOAD': 1, 'REQUEST_DFU_GETSTATUS': 3, 'REQUEST_DFU_CLRSTATUS': 4,
                         'DFUSE_CMD_ERASE_PAGE': 0x41, 'DFUSE_CMD_SET_ADDRESS': 0x21}
    ctx.add(Obligation('dfu/request-codes-match-DFU-1.1-table-3.2-and-DfuSe', [], z3.BoolVal(spec_ok), 'finite', func='dfu', kind='post',
                       cover=False, meta={'replay': ('dfu', {}), 'what': 'DFU request / DfuSe command constants differ from the specification: %r' % consts}))
    for fname, cmd in (('dfuse_erase_page', 0x41), ('dfuse_set_address', 0x21)):
        ctx.under_contract(fname, 'dfu')

        def body(run, fname=fname):
            it, dev = make_interp(run, base_it, [])
            addr = run.dom.var('address')
            return it.call(env.vars[fname], [dev, addr], {})
        paths = I.explore(body, I.IntDom)
        addr = z3.Int('address')
        for i, p in enumerate(paths):
            ctrl = [e for e in p.effects if e[0] == 'ctrl']
            if p.kind == 'return':
                ok = len(ctrl) == 1 and ctrl[0][1] == 0x21 and ctrl[0][2] == 1 and ctrl[0][3] == 0 and isinstance(ctrl[0][4], Packed) \
                    and ctrl[0][4].fmt == '<BI' and ctrl[0][4].values[0] == cmd and I.is_sym(ctrl[0][4].values[1]) \
                    and ctrl[0][4].values[1].t.eq(addr)
                goal = z3.And(z3.BoolVal(bool(ok)), addr >= 0, addr < 2 ** 32)
            else:
                # struct.error for an address outside 32 bits, AssertionError when the device does not take 5 bytes
                goal = z3.BoolVal(p.exc_name in ('struct.error', 'AssertionError'))
            ctx.add(Obligation('dfu.%s/request-is-0x%02x-then-address-little-endian#%d' % (fname, cmd, i), list(p.pc), goal, 'INT',
                               func='dfu.' + fname, kind='post', meta={'replay': ('dfu', {}),
                                                                       'what': '%s does not send DNLOAD(wValue 0) of 0x%02x + address (<I)' % (fname, cmd)}))
    ctx.under_contract('dfuse_download', 'dfu')

    def body(run):
        it, dev = make_interp(run, base_it, [])
        code = W.SymSized('bytes', run.dom.var('code_len'))
        run.notes['code'] = code
        return it.call(env.vars['dfuse_download'], [dev, code], {})
    for i, p in enumerate(I.explore(body, I.IntDom)):
        ctrl = [e for e in p.effects if e[0] == 'ctrl']
        ok = p.kind == 'raise' and p.exc_name == 'AssertionError' or (len(ctrl) == 1 and ctrl[0][1] == 0x21 and ctrl[0][2] == 1 and ctrl[0][3] == 2
                                                                         and ctrl[0][4] is p.notes['code'])
        ctx.add(Obligation('dfu.dfuse_download/DNLOAD-wValue-2-with-the-code-block#%d' % i, list(p.pc), z3.BoolVal(bool(ok)), 'INT',
                           func='dfu.dfuse_download', kind='post', cover=False, meta={'replay': ('dfu', {})}))
    ctx.under_contract('dfu_get_status', 'dfu')

    def body(run):
        it, dev = make_interp(run, base_it, [])
        return it.call(env.vars['dfu_get_status'], [dev], {})
    for i, p in enumerate(I.explore(body, I.IntDom)):
        if p.kind != 'return':
            ctx.add(Obligation('dfu.dfu_get_status/returns#%d(%s)' % (i, p.exc_name), list(p.pc), z3.BoolVal(p.exc_name == 'AssertionError'), 'INT',
                               func='dfu.dfu_get_status', kind='post', cover=False, meta={'replay': ('dfu', {})}))
            continue
        ctrl = [e for e in p.effects if e[0] == 'ctrl']
        st = [e for e in p.effects if e[0] == 'status']
        sl = [e for e in p.effects if e[0] == 'sleep']
        ok = len(ctrl) == 1 and ctrl[0][1] == 0xa1 and ctrl[0][2] == 3 and ctrl[0][4] == 6 and len(sl) == 1 and len(st) == 1
        goal = z3.BoolVal(False)
        if ok and isinstance(sl[0][1], I.Ratio) and sl[0][1].den == 1000 and I.is_sym(sl[0][1].num):
            # response bytes: status, pt0, pt1, pt2, state, iString  (DFU 1.1 section 6.1.2)
            names = sorted([str(d) for d in z3.z3util.get_vars(sl[0][1].num.t)], key=lambda s_: int(s_.split('_')[-1]))
            r = [z3.Int(n) for n in names]
            ret = p.value
            if len(r) == 3 and isinstance(ret, tuple) and len(ret) == 2:
                # the three poll-timeout bytes are response[1..3]
                goal = z3.And(sl[0][1].num.t == r[2] * 65536 + r[1] * 256 + r[0],
                              ret[0].t == st[0][1].t, ret[1].t == st[0][2].t)
                idx = [int(n.split('_')[-1]) for n in names]
                base = int(str(st[0][1].t).split('_')[-1])
                goal = z3.And(goal, z3.BoolVal(idx == [base + 1, base + 2, base + 3]))
        ctx.add(Obligation('dfu.dfu_get_status/sleeps-the-requested-poll-time-and-returns-status-state#%d' % i, list(p.pc), goal, 'INT',
                           func='dfu.dfu_get_status', kind='post', meta={'replay': ('dfu', {'key_prefix': 'poll'}),
                                                                         'what': 'dfu_get_status does not wait bwPollTimeout ms or returns other fields'}))


def _poll_bytes_of(num, status_t):
    """num == resp[k+3] * 65536 + resp[k+2] * 256 + resp[k+1] for the response whose first byte is status_t (= resp_k)"""
    try:
        base = int(str(status_t).split('_')[-1])
    except ValueError:
        return False
    r = [z3.Int('resp_%d' % (base + d)) for d in (1, 2, 3)]
    return num == r[2] * 65536 + r[1] * 256 + r[0]


def obligations_cli(ctx, base_it, env):
    ctx.under_contract('cli_main', 'dfu')
    log = []

    def body(run):
        it, dev = make_interp(run, base_it, log, modular=True)
        base_it.mods['dfu'].vars['sys'].attrs['platform'] = I.Sym('str', z3.Int('sys_platform'))
        return it.call(env.vars['cli_main'], [], {})
    paths = I.explore(body, I.IntDom)
    n = z3.Int('firmware_len')
    n_req_paths = 0
    accumulate_seen = any(l[0] == 'accumulate' and l[3] == b'\x00' for l in log)
    ctx.add(Obligation('dfu.cli_main/padding-loop-appends-zero-bytes', [], z3.BoolVal(bool(accumulate_seen)), 'finite', func='dfu.cli_main',
                       kind='invariant', cover=False, meta={'replay': ('dfu', {'props': ['C18']}), 'props': ['C18'],
                                                            'what': 'the firmware is not padded with zero bytes'}))
    for i, p in enumerate(paths):
        ctrl = [e for e in p.effects if e[0] == 'ctrl']
        page_count = None
        # page_count on this path: the constant chosen from the serial number
        # (recovered from the guard: every path that sends a request passed len(firmware) <= page_size * page_count)
        if ctrl:
            n_req_paths += 1
            first = ctrl[0]
            hyp = list(p.pc[:first[5]])
            # the flash of the device variant (GD32 serial number code: B 128 KiB, 8 64, 6 32, 4 16 - datasheet, not the program's
            # own variable): one obligation per variant, under the hypothesis that the device is that variant
            code = z3.Int('sn_char_2')
            for ch, kib in (('B', 128), ('8', 64), ('6', 32), ('4', 16)):
                ctx.add(Obligation('dfu.cli_main/path%d/C19a-first-request-only-if-firmware-fits-the-flash-of-variant-%s' % (i, ch),
                                   hyp + [code == I.str_id(ch)], n <= 1024 * kib, 'INT', func='dfu.cli_main', kind='effect', cover=False,
                                   meta={'replay': ('dfu', {'props': ['C19'], 'key_prefix': 'oversize'}), 'props': ['C19'],
                                         'what': 'a request is sent although the firmware is larger than the %d KiB flash of the variant' % kib}))
        if p.kind == 'raise' and p.exc_name == 'SystemExit':
            msg = p.value.fields.get('args', ('',))
            if msg and isinstance(msg[0], str) and 'too large' in msg[0]:
                ctx.add(Obligation('dfu.cli_main/path%d/C19a-oversize-refused-before-any-request' % i, list(p.pc), z3.BoolVal(len(ctrl) == 0),
                                   'INT', func='dfu.cli_main', kind='effect', cover=False,
                                   meta={'replay': ('dfu', {'props': ['C19'], 'key_prefix': 'oversize'}), 'props': ['C19']}))
        # every GETSTATUS response is followed, before the next request, by the sleep it asked for
        evs = [e for e in p.effects if e[0] in ('ctrl', 'status', 'sleep')]
        for j, e in enumerate(evs):
            if e[0] != 'status':
                continue
            nxt = evs[j + 1] if j + 1 < len(evs) else None
            slept = nxt is not None and nxt[0] == 'sleep' and isinstance(nxt[1], I.Ratio) and nxt[1].den == 1000 and I.is_sym(nxt[1].num) \
                and _poll_bytes_of(nxt[1].num.t, e[1].t)
            if slept is False and nxt is None and p.kind == 'raise':
                continue        # the run ended (raised) inside the poll: nothing was issued afterwards
            ctx.add(Obligation('dfu.cli_main/path%d/C18-poll%d-is-followed-by-the-sleep-it-requested' % (i, j), list(p.pc[:e[3]]),
                               slept if not isinstance(slept, bool) else z3.BoolVal(slept), 'INT', func='dfu.cli_main', kind='effect', cover=False,
                               meta={'replay': ('dfu', {'props': ['C18'], 'key_prefix': 'poll'}), 'props': ['C18'],
                                     'what': 'a GETSTATUS response is not followed by a wait of its bwPollTimeout before the next request'}))
        erase_loops, padded_len = {}, {}
        # loop bodies
        run_fails = p.kind == 'raise' and p.exc_name == 'SystemExit' and bool(p.value.fields.get('args')) \
            and not (p.value.fields['args'][0] is None or (isinstance(p.value.fields['args'][0], int) and p.value.fields['args'][0] == 0))
        for e in p.effects:
            if e[0] not in ('body-end', 'loop-break'):
                continue
            _, loop, start, pclen, last_status, last_state = e[:6]
            effs = p.effects[start:p.effects.index(e)]
            dn = [x for x in effs if x[0] == 'ctrl' and x[2] == 1]
            if not dn:
                continue
            hyp = list(p.pc[:pclen])
            if e[0] == 'loop-break':
                # the iteration that sent a request left the loop by `break`: (C19) if the device had reported an error status the run
                # must end in a failure exit; (C18) a run that ends in success must not have skipped the remaining pages
                kv = e[6]
                rng = p.notes.get('ranges', {}).get(loop[1])
                err = (last_status.t != 0) if I.is_sym(last_status) else z3.BoolVal(True)
                ctx.add(Obligation('dfu.cli_main/path%d/C19b-%s%d-left-by-break-with-an-error-status-ends-in-a-failure-exit' % (i, loop[0], loop[1]),
                                   list(p.pc) + [err], z3.BoolVal(bool(run_fails)), 'INT', func='dfu.cli_main', kind='effect', cover=False,
                                   meta={'replay': ('dfu', {'props': ['C19'], 'key_prefix': 'device-error'}), 'props': ['C19'],
                                         'what': 'the loop is left after an error status and the run does not end in a failure exit'}))
                last_iter = z3.BoolVal(False)
                if rng is not None and I.is_sym(kv):
                    hi_ = rng[1]
                    last_iter = kv.t + rng[2] >= (hi_.t if I.is_sym(hi_) else z3.IntVal(int(hi_)))
                ctx.add(Obligation('dfu.cli_main/path%d/C18-%s%d-left-by-break-only-on-failure-or-in-the-last-iteration' % (i, loop[0], loop[1]),
                                   list(p.pc), z3.Or(z3.BoolVal(bool(run_fails)), last_iter), 'INT', func='dfu.cli_main', kind='effect', cover=False,
                                   meta={'replay': ('dfu', {'props': ['C18']}), 'props': ['C18'],
                                         'what': 'a run that ends in success left an erase/write loop early: the remaining pages are not processed'}))
            else:
                # C19 (b)
                goal = (last_status.t == 0) if I.is_sym(last_status) else z3.BoolVal(False)
                ctx.add(Obligation('dfu.cli_main/path%d/C19b-%s%d-iteration-completes-only-with-status-OK' % (i, loop[0], loop[1]), hyp, goal, 'INT',
                                   func='dfu.cli_main', kind='effect',
                                   meta={'replay': ('dfu', {'props': ['C19'], 'key_prefix': 'device-error'}), 'props': ['C19'],
                                         'what': 'an erase/write step continues after the device reported an error status'}))
                # C18: not busy at the end of the iteration (loop-head invariant) and at every later request inside it
                goal = (last_state.t != DNBUSY) if I.is_sym(last_state) else z3.BoolVal(False)
                ctx.add(Obligation('dfu.cli_main/path%d/C18-%s%d-iteration-ends-with-device-not-busy' % (i, loop[0], loop[1]), hyp, goal, 'INT',
                                   func='dfu.cli_main', kind='invariant', cover=False, meta={'replay': ('dfu', {'props': ['C18']}), 'props': ['C18']}))
            for j, x in enumerate(dn[1:], 1):
                lst = x[8] if len(x) > 8 else None
                ctx.add(Obligation('dfu.cli_main/path%d/C19b-%s%d-request%d-only-after-the-previous-one-ended-with-status-OK' % (i, loop[0], loop[1], j),
                                   list(p.pc[:x[5]]), (lst.t == 0) if I.is_sym(lst) else z3.BoolVal(False), 'INT', func='dfu.cli_main', kind='effect',
                                   cover=False, meta={'replay': ('dfu', {'props': ['C19'], 'key_prefix': 'device-error'}), 'props': ['C19'],
                                                      'what': 'a further request of the same page is sent although the device reported an error status for the previous one'}))
                ls = x[6]
                goal = (ls.t != DNBUSY) if I.is_sym(ls) else z3.BoolVal(False)
                ctx.add(Obligation('dfu.cli_main/path%d/C18-%s%d-request%d-issued-with-device-not-busy' % (i, loop[0], loop[1], j),
                                   list(p.pc[:x[5]]), goal, 'INT', func='dfu.cli_main', kind='effect', cover=False,
                                   meta={'replay': ('dfu', {'props': ['C18'], 'key_prefix': 'protocol'}), 'props': ['C18']}))
            # C18 (2): addresses and chunks, stated on the requests themselves (not on how the loop counts):
            #   every erase / set-address targets a page-aligned address inside [base, base + padded length) of the flash,
            #   the chunk written after a set-address(A) is padded_image[A - base : A - base + 1024],
            #   the padded image is the firmware followed by fewer than 1024 bytes, its length a multiple of 1024
            BASE = 0x08000000
            fwn = p.notes.get('firmware')
            last_addr = None
            for x in dn:
                d = x[4]
                if isinstance(d, Packed):
                    a = d.values[1]
                    at = a.t if I.is_sym(a) else z3.IntVal(a)
                    last_addr = at
                    if d.values and d.values[0] == 0x41 and loop[0] == 'for':
                        erase_loops[loop[1]] = (at, x[5])
                    goal = z3.And((at - BASE) % 1024 == 0, at >= BASE, at + 1024 <= BASE + 1024 * 128)
                    ctx.add(Obligation('dfu.cli_main/path%d/C18-%s%d-address-is-a-page-inside-flash' % (i, loop[0], loop[1]), list(p.pc[:x[5]]),
                                       goal, 'INT', func='dfu.cli_main', kind='effect', cover=False,
                                       meta={'replay': ('dfu', {'props': ['C18']}), 'props': ['C18'],
                                             'what': 'an erase / set-address targets an address outside the page grid of the device flash'}))
                elif isinstance(d, I.SliceOf):
                    st_, sp_ = d.start, d.stop
                    fw = d.base
                    fwlen = fw.length if isinstance(fw, W.SymSized) else None
                    goal = z3.BoolVal(False)
                    if I.is_intlike(st_) and I.is_intlike(sp_) and fwlen is not None and last_addr is not None:
                        fl = fwlen.t if I.is_sym(fwlen) else z3.IntVal(fwlen)
                        stt = st_.t if I.is_sym(st_) else z3.IntVal(st_)
                        spt = sp_.t if I.is_sym(sp_) else z3.IntVal(sp_)
                        goal = z3.And(stt == last_addr - BASE, spt == stt + 1024, spt <= fl, fl % 1024 == 0, fl >= n, fl - n < 1024)
                        padded_len['fl'] = fl
                        # the write loop visits EVERY page of the padded image: the chunk offset is 0 in the first iteration, grows by a
                        # page per iteration, and the first offset not visited is the padded length
                        rng = p.notes.get('ranges', {}).get(loop[1])
                        kv = p.notes.get('iters', {}).get(loop[1])
                        if loop[0] == 'for' and rng is not None and kv is not None:
                            lo_, hi_, st_k = rng
                            Lz = lambda v: (v.t if I.is_sym(v) else z3.IntVal(int(v)))     # noqa: E731
                            kt = Lz(kv)
                            at = lambda e: z3.substitute(stt, (kt, e))                     # noqa: E731
                            cover = z3.And(at(Lz(lo_)) == 0, at(kt + st_k) - stt == 1024,
                                           z3.Implies(Lz(hi_) > Lz(lo_), at(Lz(lo_) + ((Lz(hi_) - Lz(lo_) + st_k - 1) / st_k) * st_k) == fl))
                            ctx.add(Obligation('dfu.cli_main/path%d/C18-%s%d-write-loop-visits-every-page-of-the-padded-image' % (i, loop[0], loop[1]),
                                               list(p.pc[:x[5]]), cover, 'INT', func='dfu.cli_main', kind='invariant', cover=False,
                                               meta={'replay': ('dfu', {'props': ['C18']}), 'props': ['C18'],
                                                     'what': 'the write loop does not visit every page of the zero-padded image (first / step / last page)'}))
                    ctx.add(Obligation('dfu.cli_main/path%d/C18-%s%d-chunk-is-the-page-of-the-padded-image-at-the-address-set' % (i, loop[0], loop[1]),
                                       list(p.pc[:x[5]]), goal, 'INT', func='dfu.cli_main', kind='effect', cover=False,
                                       meta={'replay': ('dfu', {'props': ['C18']}), 'props': ['C18'], 'unrecognised': z3.is_false(goal),
                                             'what': 'the chunk written is not the 1024 bytes of the zero-padded image at the address just set'}))
        # the pages erased are exactly the pages of the padded image (whatever the loop counts: pages, addresses or offsets): the erase
        # address is the flash base in the first iteration, grows by a page per iteration, and the first address not visited is base + length
        if 'fl' in padded_len:
            for k, (at_t, pclen) in erase_loops.items():
                rng = p.notes.get('ranges', {}).get(k)
                kv = p.notes.get('iters', {}).get(k)
                if rng is None or kv is None:
                    continue
                lo_, hi_, st_k = rng
                Lz = lambda v: (v.t if I.is_sym(v) else z3.IntVal(int(v)))     # noqa: E731
                kt = Lz(kv)
                at_of = lambda e2: z3.substitute(at_t, (kt, e2))               # noqa: E731
                fl = padded_len['fl']
                cover = z3.And(at_of(Lz(lo_)) == 0x08000000, at_of(kt + st_k) - at_t == 1024,
                               z3.Implies(Lz(hi_) > Lz(lo_), at_of(Lz(lo_) + ((Lz(hi_) - Lz(lo_) + st_k - 1) / st_k) * st_k) == 0x08000000 + fl),
                               z3.Implies(Lz(hi_) <= Lz(lo_), fl == 0))
                ctx.add(Obligation('dfu.cli_main/path%d/C18-for%d-erase-loop-visits-every-page-of-the-padded-image' % (i, k), list(p.pc), cover, 'INT',
                                   func='dfu.cli_main', kind='invariant', cover=False,
                                   meta={'replay': ('dfu', {'props': ['C18']}), 'props': ['C18'],
                                         'what': 'the erase loop does not visit exactly the pages of the zero-padded image'}))
    if n_req_paths == 0:
        ctx.errors.append('dfu.cli_main: no path sends a request')
    ctx.samples.append({'dfu_cli_paths': len(paths), 'paths_with_requests': n_req_paths})


def replay_dfu(ctx, d, model):
    from bounded import dfu_runs
    return dfu_runs.replay(ctx, d, model)


from pyvc import replays as _R  # noqa: E402
_R.register('dfu', 'contracts.dfu:replay_dfu')


def task_dfu(ctx):
    mod, base_it, env = load(ctx)
    ctx.assume('DfuSe device contract (DESIGN 3.7, DFU 1.1 / ST AN3156): assumed; GETSTATUS responses are arbitrary bytes; the device is not busy when the run starts')
    ctx.assume('termination of the polling loops depends on the device (partial correctness only)')
    ctx.trust('A-STRUCT for struct.pack(<BI) / struct.unpack(<BBBBBB)')
    obligations_builders(ctx, base_it, env)
    obligations_cli(ctx, base_it, env)
