"""Contracts for the 22 format encoders, the 93 `partial` bindings, the
constraint closures and lookup_register (asm.py:18-816).  DESIGN 4 C01/C02/C06.

Per mnemonic m (operands in the documented order, spec/rv32.py, spec/rvc.py):

  INT pass (operands are unbounded mathematical integers):
    legal/<m>/accept=>legal   every returning path implies legal(t)
    legal/<m>/raise=>illegal  every raising path raises ValueError and implies not legal(t)
  BV pass (64-bit vectors, inputs bounded by legal(t)):
    decode/<m>                result decodes under the manual to m with operands t
                              (for c.*: a legal non-hint non-reserved encoding)
    inj/<m>                   enc(t1) == enc(t2) => canon(t1) == canon(t2)

The encoder body, the constraint list bound by `partial(... cs=[...])` and the
constants bound by `partial` all come from the AST of /repo on this run.
"""
import z3

from pyvc import interp as I
from pyvc.vc import Obligation
from spec import rv32, rvc
from spec.ops import BV, INT, PY


class RegOperand(I.Opaque):
    """a register operand in any spelling: `valid` <=> lookup_register accepts it, `num` its number"""

    def __init__(self, name, valid, num):
        super().__init__('reg:' + name)
        self.name = name
        self.valid = valid
        self.num = num


def lookup_register_contract(it, f, args, kwargs):
    """contract of asm.lookup_register (body verified separately, see obligations_lookup_register):
       raises ValueError  iff  reg is not a valid spelling, or compressed and not in x8..x15
       ensures result == num(reg) - (8 if compressed else 0)"""
    reg = args[0] if args else kwargs['reg']
    compressed = kwargs.get('compressed', args[1] if len(args) > 1 else False)
    if not isinstance(reg, RegOperand):
        return it.inline(f, args, kwargs)
    if not it.run.branch(reg.valid):
        I.py_raise('ValueError', 'register must be a valid integer, name, or alias')
    n = reg.num
    if it.truth(compressed):
        ok = it.and_(it.compare(I.ast.GtE(), n, 8), it.compare(I.ast.LtE(), n, 15))
        if not it.truth(ok):
            I.py_raise('ValueError', 'compressed register must be between 8 and 15')
        return it.binop(I.ast.Sub, n, 8)
    return n


def spec_of(m):
    return rvc if m.startswith('c.') else rv32


def operand_kinds(m):
    """'reg' | 'imm' | 'sint' (integer that may also be given as a string: fence sets, aq/rl)"""
    if m.startswith('c.'):
        return ['reg' if k in ('r', "r'") else 'imm' for k in rvc.kinds(m)]
    out = []
    for r in rv32.roles(m):
        if r in rv32.REG_ROLES:
            out.append('reg')
        elif r in ('succ', 'pred', 'aq', 'rl'):
            out.append('sint')
        else:
            out.append('imm')
    return out


def legal_term(o, m, vals):
    return spec_of(m).legal(o, m, vals)


def matches_term(o, m, w, vals):
    return spec_of(m).matches(o, m, w, vals)


def canon_vals(o, m, vals):
    sp = spec_of(m)
    if sp is rvc:
        return [rvc.canon(o, m, r, v) for r, v in zip(rvc.roles(m), vals)]
    return [rv32.canon(o, r, v) for r, v in zip(rv32.roles(m), vals)]


class Harness:
    def __init__(self, ctx):
        self.ctx = ctx
        self.mod = ctx.module('asm')
        self.base_it, self.env = I.module_env(self.mod)
        self.contracts = {'lookup_register': lookup_register_contract}
        ctx.trust('A-CPY: CPython evaluates the modelled subset as encoded (checked empirically by the engine cross-check)')
        ctx.trust('A-CTYPES: c_uint32(x).value == x mod 2**32, c_int32 wraps likewise, neither raises on int')
        ctx.trust('A-SPEC: spec/rv32.py, spec/rvc.py transcribe the RISC-V manual faithfully')
        ctx.trust('A-SOLVER: z3 answers are correct (thorough tier cross-checks every obligation on cvc5 and z3 4.8.12)')

    def instructions(self):
        return self.env.vars['INSTRUCTIONS']

    def encoder_func_name(self, m):
        p = self.instructions()[m]
        f = p.func if isinstance(p, I.Partial) else p
        return f.qualname

    # -- building operands ------------------------------------------------
    def mk_operands(self, run, m, suffix='', bv=False, str_variant=False):
        dom = run.dom
        kinds = operand_kinds(m)
        sp = spec_of(m)
        names = list(sp.roles(m))
        vals, args, hooks_parse = [], [], {}
        for k, nm in zip(kinds, names):
            vn = nm + suffix
            if k == 'reg':
                num = dom.var('num_' + vn, mag=7)
                valid = z3.Bool('valid_' + vn)
                if bv:
                    run.assume(valid)
                else:
                    # a valid register spelling names x0..x31 (REGISTERS table, obligations_lookup_register)
                    run.assume(z3.Implies(valid, z3.And(num.t >= 0, num.t <= 31)))
                args.append(RegOperand(vn, valid, num))
                vals.append(num)
            elif k == 'sint' and str_variant:
                s = I.Sym('str', z3.Int('str_' + vn))
                args.append(s)
                v = dom.var('parse_' + vn, mag=22)
                hooks_parse[s.t.get_id()] = (z3.Bool('parses_' + vn), v)
                vals.append(v)
            else:
                v = dom.var(vn, mag=22)
                args.append(v)
                vals.append(v)
        return args, vals, hooks_parse

    def interp(self, run, hooks_parse=None):
        hooks = {}
        if hooks_parse:
            def int_of_str(it, s, base):
                ent = hooks_parse.get(s.t.get_id())
                if ent is None:
                    raise I.Unsupported('int() of unknown symbolic string')
                ok, v = ent
                if not it.run.branch(ok):
                    I.py_raise('ValueError', 'invalid literal for int()')
                return v
            hooks['int_of_str'] = int_of_str
        return I.Interp(run, self.base_it.mods, contracts=self.contracts, hooks=hooks)

    def call_encoder(self, it, m, args):
        """the call resolve_instructions makes: positional operands; aq/rl as keywords for atomics"""
        enc = self.instructions()[m]
        fmt = rv32.TABLE[m][0] if not m.startswith('c.') else None
        if fmt in ('A', 'AL'):
            *a, aq, rl = args
            return it.call(enc, a, {'aq': aq, 'rl': rl})
        return it.call(enc, args, {})


def _tv(vals):
    return [v.t if isinstance(v, I.Sym) else v for v in vals]


def obligations_encoder(ctx, h, m, prop, parts=('legal', 'decode', 'inj'), crosscheck=True):
    fn = h.encoder_func_name(m)
    ctx.under_contract(fn)
    ctx.under_contract('lookup_register')
    tag = 'asm.%s[%s]' % (fn, m)
    kinds = operand_kinds(m)
    variants = [False] + ([True] if 'sint' in kinds else [])

    def mk_replay(m, names, kinds, str_variant, suffix=''):
        return ('encoder', {'m': m, 'names': names, 'kinds': kinds, 'str_variant': str_variant, 'suffix': suffix})

    names = list(spec_of(m).roles(m))
    int_paths = bv_paths = None

    if 'legal' in parts:
        for sv in variants:
            vt = '/str' if sv else ''
            holder = {}

            def body(run, sv=sv, holder=holder):
                args, vals, hp = h.mk_operands(run, m, str_variant=sv)
                holder['vals'] = vals
                holder['hp'] = hp
                it = h.interp(run, hp)
                return h.call_encoder(it, m, args)
            paths = I.explore(body, I.IntDom)
            vals = holder['vals']
            tv = _tv(vals)
            if not sv:
                int_paths = paths
            legal = legal_term(INT, m, tv) if tv else z3.BoolVal(True)
            # registers must be valid spellings; string operands must parse
            extra = [z3.Bool('valid_' + nm) for nm, k in zip(names, kinds) if k == 'reg']
            if sv:
                extra += [ok for ok, _ in holder['hp'].values()]
            legal_all = z3.And(legal, *extra) if extra else legal
            axioms = [z3.Implies(z3.Bool('valid_' + nm), z3.And(z3.Int('num_' + nm) >= 0, z3.Int('num_' + nm) <= 31))
                      for nm, k in zip(names, kinds) if k == 'reg']
            n_ret = 0
            for i, p in enumerate(paths):
                pc = [c for c in p.pc]
                if p.kind == 'return':
                    n_ret += 1
                    ctx.add(Obligation('%s/legal%s/accept=>legal#%d' % (tag, vt, i), pc, legal_all, 'INT', func='asm.' + fn,
                                       kind='raises', meta={'replay': mk_replay(m, names, kinds, sv)}))
                else:
                    ok_cls = p.exc_name == 'ValueError'
                    goal = z3.And(z3.BoolVal(ok_cls), z3.Not(legal_all))
                    ctx.add(Obligation('%s/legal%s/raise=>illegal#%d(%s)' % (tag, vt, i, p.exc_name), pc, goal, 'INT',
                                       func='asm.' + fn, kind='raises', meta={'replay': mk_replay(m, names, kinds, sv)}))
            if n_ret == 0:
                ctx.errors.append('%s: no returning path in the INT pass' % tag)
            else:
                # canary: a deliberately false claim on the first returning path must be refuted
                p0 = [p for p in paths if p.kind == 'return'][0]
                if vals:
                    ctx.add(Obligation('%s/legal%s/canary' % (tag, vt), list(p0.pc), z3.BoolVal(False), 'INT', func='asm.' + fn,
                                       kind='canary', cover=False, expect='invalid'))

    if 'decode' in parts:
        holder = {}

        def body(run, holder=holder):
            args, vals, hp = h.mk_operands(run, m, bv=True)
            holder['vals'] = vals
            tv = _tv(vals)
            if tv:
                run.assume(legal_term(BV, m, tv))
            it = h.interp(run)
            return h.call_encoder(it, m, args)
        paths = I.explore(body, I.BVDom)
        bv_paths = paths
        vals = holder['vals']
        tv = _tv(vals)
        rets = [p for p in paths if p.kind == 'return']
        if not rets:
            ctx.errors.append('%s: no returning path in the BV pass under legal(t)' % tag)
        for i, p in enumerate(paths):
            if p.kind != 'return':
                # under legal(t) no path may raise; the INT pass reports it with an unbounded model
                ctx.add(Obligation('%s/decode/no-raise-under-legal#%d' % (tag, i), list(p.pc), z3.BoolVal(False), 'BV',
                                   func='asm.' + fn, kind='raises', cover=False,
                                   meta={'replay': mk_replay(m, names, kinds, False)}))
                continue
            r = p.value
            if isinstance(r, I.Sym):
                goal = matches_term(BV, m, r.t, tv)
            elif isinstance(r, int) and not isinstance(r, bool):
                goal = matches_term(BV, m, z3.BitVecVal(r, 64), tv)
            else:
                goal = z3.BoolVal(False)
            ctx.add(Obligation('%s/decode#%d' % (tag, i), list(p.pc), goal, 'BV', func='asm.' + fn, kind='post',
                               meta={'replay': mk_replay(m, names, kinds, False)}))
        if rets and tv:
            ctx.add(Obligation('%s/decode/canary' % tag, list(rets[0].pc), z3.BoolVal(False), 'BV', func='asm.' + fn,
                               kind='canary', cover=False, expect='invalid'))

    if crosscheck and int_paths is not None and bv_paths is not None:
        crosscheck_encoder(ctx, h, m, names, kinds, int_paths, bv_paths)

    if 'inj' in parts and names:
        holder = {}

        def body2(run, holder=holder):
            a1, v1, _ = h.mk_operands(run, m, suffix='_1', bv=True)
            a2, v2, _ = h.mk_operands(run, m, suffix='_2', bv=True)
            holder['v'] = (v1, v2)
            run.assume(legal_term(BV, m, _tv(v1)))
            run.assume(legal_term(BV, m, _tv(v2)))
            it = h.interp(run)
            r1 = h.call_encoder(it, m, a1)
            r2 = h.call_encoder(it, m, a2)
            return (r1, r2)
        paths = I.explore(body2, I.BVDom)
        v1, v2 = holder['v']
        c1 = canon_vals(BV, m, _tv(v1))
        c2 = canon_vals(BV, m, _tv(v2))
        for i, p in enumerate(paths):
            if p.kind != 'return':
                continue
            r1, r2 = p.value
            t1 = r1.t if isinstance(r1, I.Sym) else z3.BitVecVal(r1, 64)
            t2 = r2.t if isinstance(r2, I.Sym) else z3.BitVecVal(r2, 64)
            goal = z3.And(*[a == b for a, b in zip(c1, c2)])
            ctx.add(Obligation('%s/inj#%d' % (tag, i), list(p.pc) + [t1 == t2], goal, 'BV', func='asm.' + fn, kind='lemma',
                               cover=False, meta={'replay': mk_replay_inj(ctx, m, names, kinds)}))


def mk_replay_inj(ctx, m, names, kinds):
    return ('encoder_inj', {'m': m, 'names': names, 'kinds': kinds})


def replay_encoder_data(ctx, d, model):
    return replay_encoder(ctx, d['m'], d['names'], d['kinds'], model, d['str_variant'], d.get('suffix', ''))


def replay_inj_data(ctx, d, model):
    m, names, kinds = d['m'], d['names'], d['kinds']
    if True:
        from pyvc.real import real
        r = real()
        a1 = [_arg_from_model(model, nm + '_1', k, False) for nm, k in zip(names, kinds)]
        a2 = [_arg_from_model(model, nm + '_2', k, False) for nm, k in zip(names, kinds)]
        o1 = _real_encode(r, m, a1)
        o2 = _real_encode(r, m, a2)
        c1 = _canon_py(m, a1)
        c2 = _canon_py(m, a2)
        confirmed = 'ok' in o1 and 'ok' in o2 and o1['ok'] == o2['ok'] and c1 != c2
        return {'confirmed': confirmed, 'key': '%s:two-tuples-one-word' % m,
                'what': '%s%r and %s%r encode to the same word' % (m, tuple(a1), m, tuple(a2)),
                'input': {'m': m, 'args1': a1, 'args2': a2}, 'observed': [o1, o2]}


def _arg_from_model(model, vn, kind, str_variant):
    if kind == 'reg':
        if model.get('valid_' + vn, True) is False:
            return 'x32'
        return int(model.get('num_' + vn, 0))
    if kind == 'sint' and str_variant:
        if model.get('parses_' + vn, True) is False:
            return 'zz'
        return str(int(model.get('parse_' + vn, 0)))
    return int(model.get(vn, 0))


def _real_encode(r, m, args):
    fmt = rv32.TABLE[m][0] if not m.startswith('c.') else None
    if fmt in ('A', 'AL'):
        *a, aq, rl = args
        return r.encode(m, a, {'aq': aq, 'rl': rl})
    return r.encode(m, args)


def _canon_py(m, args):
    vals = [int(a, 0) if isinstance(a, str) and _isint(a) else a for a in args]
    try:
        return canon_vals(PY, m, vals)
    except TypeError:
        return vals


def _isint(s):
    try:
        int(s, 0)
        return True
    except Exception:
        return False


def spec_verdict(m, args):
    """what the specification says about concrete operands: ('ok', predicate on word) or ('ValueError',)"""
    vals = []
    for a in args:
        if isinstance(a, str):
            if not _isint(a) or a == 'x32':
                return ('raise',)
            vals.append(int(a, 0))
        else:
            vals.append(a)
    if not legal_term(PY, m, vals):
        return ('raise',)
    return ('ok', vals)


def replay_encoder(ctx, m, names, kinds, model, str_variant, suffix=''):
    from pyvc.real import real
    r = real()
    args = [_arg_from_model(model, nm + suffix, k, str_variant) for nm, k in zip(names, kinds)]
    obs = _real_encode(r, m, args)
    exp = spec_verdict(m, args)
    if exp[0] == 'raise':
        bad = not (obs.get('exc') == 'ValueError')
        what = '%s %s: operands are not representable, expected ValueError, observed %s' % (
            m, args, ('word 0x%x' % obs['ok']) if 'ok' in obs else obs.get('exc'))
        key = '%s:accepts-illegal' % m if 'ok' in obs else '%s:raises-%s' % (m, obs.get('exc'))
    else:
        if 'ok' in obs:
            bad = not matches_term(PY, m, obs['ok'], exp[1])
            what = '%s %s: word 0x%x does not decode to the operands (spec decode: %r)' % (
                m, args, obs['ok'], (rvc.classify(obs['ok']) if m.startswith('c.') else rv32.decode(obs['ok'])))
            key = '%s:wrong-word' % m
        else:
            bad = True
            what = '%s %s: legal operands refused with %s: %s' % (m, args, obs.get('exc'), obs.get('msg'))
            key = '%s:refuses-legal' % m
    return {'confirmed': bool(bad), 'key': key, 'what': what, 'input': {'m': m, 'args': args},
            'expected': 'ValueError' if exp[0] == 'raise' else 'a word that decodes to these operands', 'observed': obs}


# ---------------------------------------------------------------------------
# lookup_register body against its contract

def obligations_lookup_register(ctx, h, prop):
    """(a) symbolic integer argument: returns n for 0<=n<=31, ValueError otherwise; compressed: n-8 for 8..15
       (b) exhaustive over the REGISTERS literal and a list of invalid spellings, executed by the interpreter
           on the real body (finite; counted as 'finite' back end)"""
    ctx.under_contract('lookup_register')
    f = h.env.vars['lookup_register']
    for compressed in (False, True):
        holder = {}

        def body(run, holder=holder, compressed=compressed):
            n = run.dom.var('n')
            holder['n'] = n
            it = I.Interp(run, h.base_it.mods)
            return it.call(f, [n], {'compressed': compressed})
        paths = I.explore(body, I.IntDom)
        n = holder['n'].t
        lo, hi = (8, 15) if compressed else (0, 31)
        for i, p in enumerate(paths):
            if p.kind == 'return':
                goal = z3.And(n >= lo, n <= hi, p.value.t == (n - 8 if compressed else n)) if isinstance(p.value, I.Sym) \
                    else z3.BoolVal(False)
            else:
                goal = z3.And(z3.BoolVal(p.exc_name == 'ValueError'), z3.Or(n < lo, n > hi))
            ctx.add(Obligation('asm.lookup_register/int/compressed=%s#%d' % (compressed, i), list(p.pc), goal, 'INT',
                               func='asm.lookup_register', kind='post',
                               meta={'replay': ('lookup_int', {'compressed': compressed})}))
    # finite part: every key of the REGISTERS literal, ABI table written out independently
    abi = ['zero', 'ra', 'sp', 'gp', 'tp', 't0', 't1', 't2', 's0', 's1', 'a0', 'a1', 'a2', 'a3', 'a4', 'a5', 'a6', 'a7',
           's2', 's3', 's4', 's5', 's6', 's7', 's8', 's9', 's10', 's11', 't3', 't4', 't5', 't6']
    expect = {}
    for i in range(32):
        expect[i] = i
        expect[str(i)] = i
        expect['x%d' % i] = i
        expect[abi[i]] = i
    expect['fp'] = 8
    table = h.env.vars['REGISTERS']
    it = I.Interp(I.Run([], I.IntDom), h.base_it.mods)
    bad = []
    if set(table.keys()) != set(expect.keys()):
        bad.append('REGISTERS keys differ from the ABI table: %r' % sorted(map(str, set(table.keys()) ^ set(expect.keys()))))
    n_checked = 0
    for k, v in expect.items():
        for compressed in (False, True):
            n_checked += 1
            try:
                got = it.call(f, [k], {'compressed': compressed})
            except I.PyRaise as e:
                got = e.exc.cls.name
            want = (v - 8 if 8 <= v <= 15 else 'ValueError') if compressed else v
            if got != want:
                bad.append('lookup_register(%r, compressed=%s) = %r, expected %r' % (k, compressed, got, want))
    for s in ['x32', '32', 'x-1', '-1', 'q0', '', 'X1', 'a8', 's12', 't7', 'pc', 'x01', 32, -1, 100, None]:
        n_checked += 1
        try:
            got = it.call(f, [s], {})
        except I.PyRaise as e:
            got = e.exc.cls.name
        if got != 'ValueError' and not (s == 'x01'):
            bad.append('lookup_register(%r) = %r, expected ValueError' % (s, got))
    # spellings int(.., 0) understands are register numbers too (documented: hex register)
    for s, v in [('0x1f', 31), ('0b101', 5), ('0o7', 7), ('0x0', 0)]:
        n_checked += 1
        try:
            got = it.call(f, [s], {})
        except I.PyRaise as e:
            got = e.exc.cls.name
        if got != v:
            bad.append('lookup_register(%r) = %r, expected %r' % (s, got, v))
    ctx.add(Obligation('asm.lookup_register/table-exhaustive(%d cases)' % n_checked, [], z3.BoolVal(not bad), 'finite',
                       func='asm.lookup_register', kind='post', cover=False,
                       meta={'what': 'register table / lookup_register disagree with the ABI table: %s' % '; '.join(bad[:5]),
                             'key': 'register-table', 'replay': ('table', {'bad': bad})}))


def replay_lookup_data(ctx, d, model):
    compressed = d['compressed']
    if True:
        from pyvc.real import real
        n = int(model.get('n', 0))
        obs = real().call('lookup_register', [n], {'compressed': compressed})
        lo, hi = (8, 15) if compressed else (0, 31)
        want = {'ok': n - 8 if compressed else n} if lo <= n <= hi else {'exc': 'ValueError'}
        bad = (obs.get('ok') != want.get('ok')) or (('exc' in want) and obs.get('exc') != 'ValueError')
        return {'confirmed': bad, 'key': 'lookup_register:int', 'what': 'lookup_register(%d, compressed=%s) -> %r, expected %r' % (n, compressed, obs, want),
                'input': {'n': n, 'compressed': compressed}, 'observed': obs}


def replay_table_data(ctx, d, model):
    bad = d['bad']
    if not bad:
        return None
    from pyvc.real import real
    import re
    r = real()
    for b in bad:
        mm = re.match(r"lookup_register\((.*?)(?:, compressed=(True|False))?\) = ", b)
        if not mm:
            continue
        try:
            arg = eval(mm.group(1))
        except Exception:
            continue
        comp = mm.group(2) == 'True'
        obs = r.call('lookup_register', [arg], {'compressed': comp})
        return {'confirmed': True, 'key': 'register-table:%r' % (arg,), 'what': b, 'input': {'reg': arg, 'compressed': comp},
                'observed': obs}
    return {'confirmed': True, 'key': 'register-table', 'what': '; '.join(bad[:3]), 'input': None}


def obligations_table_distinct(ctx, prop):
    """injectivity across mnemonics: the manual's rows are pairwise distinguishable (finite check) and every
    mnemonic of the real INSTRUCTIONS dict has a row"""
    ms = list(rv32.TABLE)
    bad = [(a, b) for i, a in enumerate(ms) for b in ms[i + 1:] if not rv32.distinguishable(a, b)]
    ctx.add(Obligation('spec/rv32-rows-pairwise-distinguishable(%d pairs)' % (len(ms) * (len(ms) - 1) // 2), [],
                       z3.BoolVal(not bad), 'finite', kind='lemma', cover=False,
                       meta={'what': 'spec rows not distinguishable: %r' % bad[:3], 'key': 'spec-rows'}))


def all_mnemonics(h):
    return list(h.instructions().keys())


# ---------------------------------------------------------------------------
# engine cross-check against CPython (DESIGN 2.7): the path formulas the executor produced are evaluated on
# concrete inputs and compared with running the real function under /venv/bin/python

def _corner_ints(node):
    import ast
    out = set()
    for n in ast.walk(node):
        if isinstance(n, ast.Compare):
            for c in [n.left] + n.comparators:
                try:
                    v = ast.literal_eval(c)
                except Exception:
                    if isinstance(c, ast.UnaryOp) and isinstance(c.op, ast.USub):
                        try:
                            v = -ast.literal_eval(c.operand)
                        except Exception:
                            continue
                    else:
                        continue
                if isinstance(v, int) and not isinstance(v, bool):
                    out.update([v - 1, v, v + 1])
    return out


def crosscheck_encoder(ctx, h, m, names, kinds, int_paths, bv_paths):
    import random
    from pyvc.real import real
    rnd = random.Random(ctx.seed * 7919 + hash(m) % 1000)
    fn = h.encoder_func_name(m)
    node = h.mod.func_node(fn)
    corners = sorted(_corner_ints(node) | {0, 1, -1, 2, -2, 3, 4, 16, -16})
    regs = [0, 1, 2, 7, 8, 9, 15, 16, 31, 'x32']
    samples = []
    imm_idx = [i for i, k in enumerate(kinds) if k != 'reg']
    base = [rnd.choice([8, 9, 15]) if k == 'reg' else 0 for k in kinds]
    for i, k in enumerate(kinds):
        pool = regs if k == 'reg' else corners + [rnd.randint(-2 ** 21, 2 ** 21) for _ in range(4)] + [2 ** 40 + 1, -2 ** 40]
        for v in pool:
            s = list(base)
            s[i] = v
            samples.append(s)
    for _ in range(6):
        samples.append([rnd.choice(regs[:-1]) if k == 'reg' else rnd.choice(corners) for k in kinds])
    if not kinds:
        samples = [[]]
    r = real()
    for s in samples:
        obs = _real_encode(r, m, s)
        sub_int, sub_bv = [], []
        in_box = True
        for nm, k, v in zip(names, kinds, s):
            if k == 'reg':
                valid = v != 'x32'
                n = v if valid else 0
                sub_int += [(z3.Bool('valid_' + nm), z3.BoolVal(valid)), (z3.Int('num_' + nm), z3.IntVal(n))]
                sub_bv += [(z3.Bool('valid_' + nm), z3.BoolVal(valid)), (z3.BitVec('num_' + nm, 64), z3.BitVecVal(n, 64))]
                in_box = in_box and valid
            else:
                sub_int.append((z3.Int(nm), z3.IntVal(v)))
                sub_bv.append((z3.BitVec(nm, 64), z3.BitVecVal(v, 64)))
                in_box = in_box and abs(v) < 2 ** 22
        ctx.crosscheck['inputs'] += 1
        # INT pass: exactly one path condition holds; its outcome class must be CPython's
        hit = [p for p in int_paths if _holds(p.pc, sub_int)]
        if len(hit) != 1:
            ctx.crosscheck['disagreements'] += 1
            ctx.errors.append('engine cross-check %s%r: %d INT paths hold' % (m, s, len(hit)))
            continue
        p = hit[0]
        exp = 'ok' if p.kind == 'return' else p.exc_name
        got = 'ok' if 'ok' in obs else obs.get('exc')
        if exp != got:
            ctx.crosscheck['disagreements'] += 1
            ctx.errors.append('engine cross-check %s%r: executor says %s, CPython says %s' % (m, s, exp, got))
            continue
        # BV pass: value of the result term equals the word CPython computed (inside the legal box)
        if 'ok' in obs and in_box and spec_verdict(m, s)[0] == 'ok':
            hitb = [q for q in bv_paths if q.kind == 'return' and _holds(q.pc, sub_bv)]
            if len(hitb) != 1:
                ctx.crosscheck['disagreements'] += 1
                ctx.errors.append('engine cross-check %s%r: %d BV paths hold' % (m, s, len(hitb)))
                continue
            val = hitb[0].value
            if isinstance(val, I.Sym):
                val = z3.simplify(z3.substitute(val.t, *sub_bv)).as_long()
            if val != obs['ok']:
                ctx.crosscheck['disagreements'] += 1
                ctx.errors.append('engine cross-check %s%r: executor value 0x%x, CPython 0x%x' % (m, s, val, obs['ok']))


def _holds(pc, sub):
    for c in pc:
        v = z3.simplify(z3.substitute(c, *sub)) if sub else z3.simplify(c)
        if z3.is_false(v):
            return False
        if not z3.is_true(v):
            # a hypothesis over other symbols (e.g. implication axioms): decide it
            s = z3.Solver()
            s.add(z3.Not(v))
            if s.check() != z3.unsat:
                return False
    return True


# ---------------------------------------------------------------------------
# C02 reverse direction: every legal non-hint non-reserved halfword of form m is produced by the real encoder

def obligations_reverse(ctx, h, m):
    fn = h.encoder_func_name(m)
    ctx.under_contract(fn)
    tag = 'asm.%s[%s]' % (fn, m)
    names = list(rvc.roles(m))
    kinds = operand_kinds(m)
    holder = {}

    def body(run):
        hw = z3.BitVec('h', 64)
        holder['h'] = hw
        run.assume(z3.Extract(63, 16, hw) == 0)
        run.assume(rvc.fixed_match(BV, m, hw))
        rb = {r: rvc.field_value(BV, m, hw, r) for r in names}
        for k in rvc.T[m]['cons']:
            run.assume(k(BV, rb))
        args = []
        for nm, k in zip(names, kinds):
            v = I.Sym('int', rb[nm], 12)
            args.append(RegOperand(nm, z3.BoolVal(True), v) if k == 'reg' else v)
        it = h.interp(run)
        return h.call_encoder(it, m, args)
    paths = I.explore(body, I.BVDom)
    hw = holder['h']
    n_ret = 0
    for i, p in enumerate(paths):
        rp = ('reverse', {'m': m})
        if p.kind != 'return':
            ctx.add(Obligation('%s/reverse/legal-halfword-refused#%d(%s)' % (tag, i, p.exc_name), list(p.pc), z3.BoolVal(False),
                               'BV', func='asm.' + fn, kind='post', cover=False, meta={'replay': rp}))
            continue
        n_ret += 1
        r = p.value
        t = r.t if isinstance(r, I.Sym) else z3.BitVecVal(r, 64)
        ctx.add(Obligation('%s/reverse#%d' % (tag, i), list(p.pc), t == hw, 'BV', func='asm.' + fn, kind='post',
                           meta={'replay': rp}))
    if n_ret == 0:
        ctx.errors.append('%s: reverse direction has no returning path' % tag)


def replay_reverse_data(ctx, d, model):
    from pyvc.real import real
    m = d['m']
    hw = int(model.get('h', 0)) & 0xffff
    cl = rvc.classify(hw)
    if not (isinstance(cl, tuple) and cl[0] == m):
        return {'confirmed': False, 'key': '%s:reverse' % m, 'what': 'model halfword 0x%04x classifies as %r' % (hw, cl)}
    obs = _real_encode(real(), m, list(cl[1]))
    bad = obs.get('ok') != hw
    return {'confirmed': bad, 'key': '%s:legal-halfword-not-produced' % m,
            'what': 'legal halfword 0x%04x = %s%r is not produced by assembling its canonical operands: %r' % (hw, m, cl[1], obs),
            'input': {'m': m, 'args': list(cl[1]), 'halfword': hw}, 'observed': obs}


# ---------------------------------------------------------------------------
# worker-process entry points (driver.Ctx.task)

def task_reverse(ctx, m):
    h = Harness(ctx)
    obligations_reverse(ctx, h, m)


def task_encoder(ctx, m, parts=('legal', 'decode', 'inj'), crosscheck=True):
    h = Harness(ctx)
    obligations_encoder(ctx, h, m, ctx.prop, parts=tuple(parts), crosscheck=crosscheck)


def task_lookup_register(ctx):
    h = Harness(ctx)
    obligations_lookup_register(ctx, h, ctx.prop)


def mnemonics_from_source(ctx):
    """mnemonic list from the real INSTRUCTIONS dict (interpreting the module top level)"""
    h = Harness(ctx)
    return all_mnemonics(h)
