"""Replays for pass-level obligations (DESIGN 2.6): a failed step / rule / effect obligation is replayed by
running the bank of probe programs that exercise that pass and item kind through the REAL assembler and the
independent oracle (bounded/oracle.py).  The first failing probe is the concrete input; when no probe fails the
violation is still reported with `no-failing-input-found`."""
from pyvc import replays as _R


class _Collect:
    """minimal ctx stand-in for the runner"""

    def __init__(self, ctx):
        self.ctx = ctx
        self.found = []
        self.bounded = {'parts': {}}

    def b_rule(self, t):
        pass

    def b_eval(self, *a, **k):
        pass

    def violation(self, obligation, key, what, replay, confirmed=True, source='bounded'):
        self.found.append((key, what, replay))


def _probe(ctx, suites, checks, extra_progs=(), limit=4000):
    from bounded import families, runner
    c = _Collect(ctx)
    n = 0
    for s in suites:
        progs = families.suite(s, 'quick', ctx.seed)
        runner.run_programs(c, _take(progs, limit), 'replay', checks, max_report=1)
        if c.found:
            break
    if not c.found and extra_progs:
        runner.run_programs(c, extra_progs, 'replay', checks, max_report=1)
    if not c.found:
        return None
    key, what, rep = c.found[0]
    return {'confirmed': True, 'key': key, 'what': what, 'input': {'source': rep.get('source')}, 'observed': rep.get('fails')}


def _take(it, n):
    for i, x in enumerate(it):
        if i >= n:
            return
        yield x


LAYOUT = {'label', 'target', 'concat', 'size', 'value', 'modes'}


def replay_pass_step(ctx, d, model):
    suites = {'resolve_aligns': ['align', 'mix', 'val'], 'resolve_labels': ['mix', 'align', 'dist'],
              'transform_pseudo_instructions': ['mix', 'li', 'pseudo', 'dist', 'far'],
              'transform_compressible': ['mix', 'cedge', 'dist'], 'resolve_immediates': ['val', 'mix', 'dist', 'far', 'li']}
    return _probe(ctx, suites.get(d['pass'], ['mix', 'align']), LAYOUT | {'li', 'decode'})


def replay_compress_rule(ctx, d, model):
    from bounded import gen, families
    kind = d.get('kind')
    name = d.get('name')
    extra = []
    if kind == 'operand-type' or name in ('slli', 'srli', 'srai'):
        for m in ('slli', 'srli', 'srai'):
            p = gen.Prog('shamt-const:%s' % m)
            p.const('SH', 3)
            p.add('%s x8, x8, SH' % m, kind='insn', m=m, ops=(8, 8, 3), literal=True)
            p.add('%s x9, x9, x3' % m, kind='insn', m=m, ops=(9, 9, 3), literal=True)
            p.add('%s x9, x9, 0x3' % m, kind='insn', m=m, ops=(9, 9, 3), literal=True)
            extra.append(p)
    if kind == 'auipc-jump' or name == 'jalr':
        return _probe(ctx, ['far', 'dist'], {'target', 'accept', 'modes', 'decode'}, extra)
    if kind == 'exception':
        p = gen.Prog('unknown-register')
        p.add('%s' % {'addi': 'addi x8, x99, 1'}.get(name, 'addi x8, x99, 1'), kind='insn', m='addi', ops=(8, 0, 1))
        extra.append(p)
    r = _probe(ctx, ['cedge', 'mix', 'pseudo'], {'decode', 'modes', 'eligible', 'accept', 'size'}, extra)
    return r


def replay_pseudo_effect(ctx, d, model):
    name = d.get('name')
    suites = ['li'] if name == 'li' else (['dist', 'far', 'pseudo'] if name in ('call', 'tail', 'j', 'jal') else ['pseudo', 'dist'])
    return _probe(ctx, suites, {'li', 'decode', 'target', 'value'})


_R.register('pass_step', 'contracts.replay_passes:replay_pass_step')
_R.register('compress_rule', 'contracts.replay_passes:replay_compress_rule')
_R.register('pseudo_effect', 'contracts.replay_passes:replay_pseudo_effect')
