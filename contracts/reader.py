"""read_lines (asm.py) under contract: the splice equation and path provenance.  DESIGN 4 C14 (1)(2), C10 (4).

The loop body `for i, raw_line in enumerate(source.splitlines(), start=1)` is executed once on an ARBITRARY line
(number i >= 1, arbitrary text; string predicates such as .lower().startswith('include ') are uninterpreted), file
system primitives are uninterpreted constructors (join / dirname / abspath build path TERMS, exists is an arbitrary
predicate), the recursive call is replaced by its own contract (modular; partial correctness - include cycles
diverge).  Obligations:
  splice       an ordinary line appends exactly Line(path, i, raw_line); a blank line appends nothing; an include line
               extends the result by read_lines(F', include=True, include_dirs=include_dirs) where F' is the lookup result
  lookup       F' = join(d, F) for the FIRST d in include_dirs + [dirname(abspath(path))] with exists(join(d, F));
               none => AssemblerError carrying this line
  provenance   every path handed to open / exists / getsize is the function's own path argument or join(d, F) with d from
               that list: the working directory is consulted only when the source is given as a string, never for a file
  include_bytes   the line is rewritten to name the lookup result and its size (so the later open() reads that file)
"""
import ast

import z3

from pyvc import interp as I
from pyvc.vc import Obligation
from contracts.encoders import Harness
from contracts.cli import Fmt


class PathTerm(I.Opaque):
    def __init__(self, op, *args):
        super().__init__('path')
        self.op, self.args = op, args

    def key(self):
        return (self.op,) + tuple(a.key() if isinstance(a, PathTerm) else (str(a.t) if isinstance(a, I.Sym) else repr(a)) for a in self.args)

    def __repr__(self):
        return '%s(%s)' % (self.op, ', '.join(map(repr, self.args)))


class Raw(I.Opaque):
    """text derived from the current raw line"""

    def __init__(self, how, src=None):
        super().__init__('str')
        self.how, self.src = how, src


def run_body(h, run, kind):
    """kind: 'file' (path_or_source names an existing file) | 'string'"""
    eff = run.effects
    dom = run.dom
    top = PathTerm('arg')
    incdir = PathTerm('incdir0')
    exists = {}
    bools = {}
    raw = Raw('raw_line')
    i_var = dom.var('i')
    run.assume(i_var.t >= 1)
    calls = []
    state = {}

    def pkey(p):
        return p.key() if isinstance(p, PathTerm) else repr(p)

    def external(it, qual, args, kw):
        if qual == 'os.path.exists':
            k = pkey(args[0])
            eff.append(('exists', args[0]))
            if args[0] is top:
                return kind == 'file'
            if k not in exists:
                exists[k] = z3.Bool('exists_%d' % len(exists))
            return I.Sym('bool', exists[k])
        if qual == 'os.path.abspath':
            return PathTerm('abspath', args[0])
        if qual in ('os.path.realpath', 'os.path.normpath', 'os.path.normcase', 'os.path.expanduser'):
            return PathTerm(qual.split('.')[-1], args[0])
        if qual in ('os.path.isfile', 'os.path.isdir', 'os.path.isabs'):
            k = (qual, pkey(args[0]))
            if k not in exists:
                exists[k] = z3.Bool('%s_%d' % (qual.split('.')[-1], len(exists)))
            return I.Sym('bool', exists[k])
        if qual == 'os.path.dirname':
            return PathTerm('dirname', args[0])
        if qual == 'os.path.join':
            return PathTerm('join', *args)
        if qual == 'os.getcwd':
            eff.append(('getcwd',))
            return PathTerm('cwd')
        if qual == 'os.path.getsize':
            eff.append(('getsize', args[0]))
            n = dom.var('size')
            run.assume(n.t >= 0)
            return n
        if qual == 'open':
            eff.append(('open', args[0]))
            return I.Opaque('srcfile')
        if qual == 're.sub':
            return Raw('re.sub', args)
        return NotImplemented

    def opaque_attr(it, obj, name):
        if isinstance(obj, I.Opaque) and obj.tag == 'srcfile':
            if name == 'read':
                return I.Builtin('read', lambda it2, a, k: I.Opaque('source-text'))
            return I.Builtin(name, lambda it2, a, k: None)
        if isinstance(obj, I.Opaque) and obj.tag == 'source-text' and name == 'splitlines':
            return I.Builtin('splitlines', lambda it2, a, k: I.Opaque('source-lines'))
        if isinstance(obj, PathTerm) and name == 'splitlines':
            # the string form: path_or_source is the source text
            return I.Builtin('splitlines', lambda it2, a, k: I.Opaque('source-lines'))
        if isinstance(obj, Raw):
            if name in ('strip', 'lower', 'rstrip', 'lstrip', 'upper', 'casefold', 'expandtabs', 'replace'):
                return I.Builtin(name, lambda it2, a, k: Raw(name, (obj,) + tuple(a)))
            if name in ('partition', 'rpartition'):
                # (head, separator or '', tail): three strings derived from this one
                return I.Builtin(name, lambda it2, a, k: (Raw(name + '-head', (obj,) + tuple(a)), Raw(name + '-sep', (obj,) + tuple(a)),
                                                          Raw(name + '-tail', (obj,) + tuple(a))))
            if name == 'startswith':
                def sw(it2, a, k):
                    key = ('startswith', id(obj) if obj.how == 'raw_line' else (obj.how, id(obj.src[0]) if obj.src else None), a[0])
                    # .lower() of the same raw line is the same string
                    key = ('startswith', obj.how, a[0])
                    if key not in bools:
                        bools[key] = z3.Bool('startswith_%s_%d' % (a[0].strip().replace(' ', '_'), len(bools)))
                    return I.Sym('bool', bools[key])
                return I.Builtin('startswith', sw)
            if name == 'split':
                def split(it2, a, k):
                    if it2.run.branch(z3.Bool('splits_in_two_%s' % obj.how)):
                        return [Raw('keyword'), Raw('rel_path', (obj,))]
                    return [Raw('keyword')]
                return I.Builtin('split', split)
        raise I.Unsupported('attribute %s of %r' % (name, obj))

    def b_len(it, v):
        if isinstance(v, Raw):
            n = dom.var('len_%s' % v.how)
            run.assume(n.t >= 0)
            return n
        raise I.Unsupported('len of %r' % (v,))

    def enum_hook(it, args, kw):
        if args and isinstance(args[0], I.Opaque) and args[0].tag == 'source-lines':
            tok = I.Opaque('numbered-lines')
            tok.start = kw.get('start', args[1] if len(args) > 1 else 0)
            return tok
        return None

    def for_hook(it, s, env, itv):
        # the line loop: one arbitrary iteration
        if True:
            if isinstance(itv, I.Opaque) and itv.tag == 'numbered-lines':
                state['start'] = itv.start
                it.assign(s.target, (i_var, raw), env)
                # nothing below depends on how the function names its locals: the output list is the list that is
                # returned in the end; the variables the loop relies on are those bound, on entry, to a path or a search path
                state['lists_before'] = {n: (o, list(o)) for n, o in env.vars.items() if isinstance(o, list)}
                state['vars_before'] = {n: o for n, o in env.vars.items() if _pathish(o)}
                try:
                    it.exec_block(s.body, env)
                except I._Continue:
                    pass
                state['lists_after'] = {n: (o, list(o)) for n, o in env.vars.items() if isinstance(o, list)}
                state['vars_after'] = {k: env.vars.get(k) for k in state['vars_before']}
                return True
        return None

    def rl_contract(it, f, args, kwargs):
        if state.get('entered'):
            calls.append((args, dict(kwargs)))
            # contract of the nested call: it returns the lines of that file, or refuses with an AssemblerError that names
            # a line of the nested file (refusal-is-AssemblerError-with-this-line, below)
            if it.run.branch(z3.Bool('nested_read_refuses')):
                inner = I.SObj(h.env.vars['Line'], {'file': I.Opaque('nested.file'), 'number': I.Opaque('nested.number'),
                                                    'contents': I.Opaque('nested.contents')})
                exc = it.instantiate(h.env.vars['AssemblerError'], ['error in the included file', inner], {})
                it.run.notes['nested_exc'] = exc
                raise I.PyRaise(exc)
            return [SubLines(args[0])]
        state['entered'] = True
        return it.inline(f, args, kwargs)

    truths = {}

    def truth(it, v):
        if isinstance(v, Raw):
            # emptiness of a derived string: an uninterpreted predicate of how it was derived
            key = v.how
            if key not in truths:
                truths[key] = z3.Bool('nonempty_%s' % key)
            return truths[key]
        return None

    hooks = {'external': external, 'opaque_attr': opaque_attr, 'len': b_len, 'for': for_hook, 'enumerate': enum_hook, 'truth': truth}
    it = I.Interp(run, h.base_it.mods, contracts={'read_lines': rl_contract}, hooks=hooks)
    orig_cm = it.concrete_method

    def concrete_method(obj, name):
        if isinstance(obj, str) and name == 'format':
            def fmt(it2, a, k, obj=obj):
                if any(isinstance(x, (I.Sym, I.Opaque, I.SObj)) for x in a):
                    return Fmt(obj, tuple(a))
                return obj.format(*a, **k)
            return I.Builtin('str.format', fmt)
        return orig_cm(obj, name)
    it.concrete_method = concrete_method
    res = it.call(h.env.vars['read_lines'], [top], {'include_dirs': [incdir]})
    return dict(result=res, state=state, calls=calls, top=top, incdir=incdir, raw=raw, i=i_var, exists=exists, bools=bools)


def _pathish(o):
    """a file name or a search path (a collection of directory terms)"""
    if isinstance(o, PathTerm) or o == '<string>':
        return True
    return isinstance(o, (list, tuple, set, frozenset)) and any(isinstance(x, PathTerm) for x in o)


def _has(env, k):
    try:
        env.lookup(k)
        return True
    except KeyError:
        return False


class SubLines(I.Opaque):
    def __init__(self, path):
        super().__init__('lines-of')
        self.path = path


def obligations_reader(ctx, h):
    ctx.under_contract('read_lines')
    ctx.under_contract('read_lines.lookup')
    fn = 'asm.read_lines'
    for kind in ('file', 'string'):
        try:
            paths = I.explore(lambda run: run_body(h, run, kind), I.IntDom)
        except I.Unsupported as e:
            ctx.undecide('%s/%s' % (fn, kind), str(e))
            continue
        n_plain = n_inc = n_bytes = 0
        for pi, p in enumerate(paths):
            rp = ('include_tree', {})
            if p.kind == 'raise':
                e = p.value
                ok = e.cls.name == 'AssemblerError'
                ln = e.fields.get('line')
                ok = ok and isinstance(ln, I.SObj) and ln.fields.get('number') is not None
                ctx.add(Obligation('%s/%s/path%d/refusal-is-AssemblerError-with-this-line' % (fn, kind, pi), list(p.pc), z3.BoolVal(bool(ok)),
                                   'INT', func=fn, kind='raises', cover=False, meta={'replay': rp, 'props': ['C14', 'C15', 'C10']}))
                ne = p.notes.get('nested_exc')
                if ne is not None:
                    # an error found while reading an included file keeps ITS file and line on the way out
                    same = e is ne or (e.cls.name == 'AssemblerError' and isinstance(ln, I.SObj) and isinstance(ne.fields.get('line'), I.SObj)
                                       and all(ln.fields.get(k) is ne.fields['line'].fields.get(k) for k in ('file', 'number')))
                    ctx.add(Obligation('%s/%s/path%d/error-of-an-included-file-keeps-its-own-file-and-line' % (fn, kind, pi), list(p.pc),
                                       z3.BoolVal(bool(same)), 'INT', func=fn, kind='raises', cover=False,
                                       meta={'replay': ('fault_bank', {'nested': True}), 'props': ['C15', 'C14'],
                                             'what': 'an AssemblerError raised while reading an included file is re-attributed to another line'}))
                continue
            if p.notes.get('nested_exc') is not None:
                ctx.add(Obligation('%s/%s/path%d/error-of-an-included-file-is-not-swallowed' % (fn, kind, pi), list(p.pc), z3.BoolVal(False), 'INT',
                                   func=fn, kind='raises', cover=False, meta={'replay': ('fault_bank', {'nested': True}), 'props': ['C15', 'C14'],
                                                                              'what': 'read_lines returns although reading an included file failed'}))
                continue
            v = p.value
            st = v['state']
            out = None
            if 'lists_after' in st:
                out = next((n for n, (o, _) in st['lists_before'].items() if o is v['result']), None)
            if out is None:
                # no loop over the numbered source lines that appends to the list returned in the end: the harness cannot
                # state the splice equation for this shape (tool limit unless the replay shows a failing tree)
                ctx.add(Obligation('%s/%s/path%d/line-loop-found' % (fn, kind, pi), [], z3.BoolVal(False), 'finite', func=fn, kind='post',
                                   cover=False, meta={'replay': rp, 'unrecognised': True}))
                continue
            added = st['lists_after'][out][1][len(st['lists_before'][out][1]):]
            expected_file = v['top'] if kind == 'file' else '<string>'
            eff = p.effects
            # provenance: arguments of file-system primitives
            good_dirs = [v['incdir'].key(), ('dirname', ('abspath', v['top'].key()))] if kind == 'file' else [v['incdir'].key(), ('cwd',)]
            prov_ok = True
            why = ''
            for e in eff:
                if e[0] in ('exists', 'open', 'getsize'):
                    a = e[1]
                    if a is v['top']:
                        continue
                    k = a.key() if isinstance(a, PathTerm) else None
                    if not (k and k[0] == 'join' and k[1] in good_dirs):
                        prov_ok, why = False, '%s(%r)' % (e[0], a)
                if e[0] == 'getcwd' and kind == 'file':
                    prov_ok, why = False, 'the working directory is consulted for a source file'
            ctx.add(Obligation('%s/%s/path%d/paths-derive-from-the-including-file-or-include-dirs' % (fn, kind, pi), list(p.pc),
                               z3.BoolVal(prov_ok), 'INT', func=fn, kind='frame', cover=False,
                               meta={'replay': rp, 'props': ['C14', 'C10', 'C17'], 'what': 'read_lines consults a path outside the search rule: %s' % why}))
            # loop invariant: the variables the loop reads (the file name lines are attributed to, the search path) are the
            # same objects after the body, and the search path is an ordered list (first match must be well defined)
            inv_ok = all(st['vars_after'].get(k) is v_ or (isinstance(v_, str) and st['vars_after'].get(k) == v_) for k, v_ in st['vars_before'].items())
            search_paths = [o for o in st['vars_before'].values() if not isinstance(o, (PathTerm, str))]
            ordered = bool(search_paths) and all(isinstance(o, (list, tuple)) for o in search_paths) and not p.notes.get('set_iterated')
            ctx.add(Obligation('%s/%s/path%d/loop-variables-unchanged-and-search-path-ordered' % (fn, kind, pi), list(p.pc),
                               z3.BoolVal(bool(inv_ok and ordered)), 'INT', func=fn, kind='invariant', cover=False,
                               meta={'replay': rp, 'props': ['C14', 'C15', 'C16', 'C10', 'C17'],
                                     'what': 'read_lines changes the file name / search path while reading a file, or searches an unordered collection'}))
            ok = True
            why = ''
            start_ok = st.get('start') == 1
            if len(added) == 0:
                pass
            elif len(added) == 1 and isinstance(added[0], SubLines):
                n_inc += 1
                calls = v['calls']
                inc = added[0].path
                k = inc.key() if isinstance(inc, PathTerm) else None
                ok = len(calls) == 1 and calls[0][0][0] is inc and calls[0][1].get('include') is True and \
                    isinstance(calls[0][1].get('include_dirs'), list) and len(calls[0][1]['include_dirs']) == 1 and \
                    calls[0][1]['include_dirs'][0] is v['incdir'] and k is not None and k[0] == 'join' and k[1] in good_dirs
                # first match wins: if the path found is in the adjacent directory, the include dir had no such file
                if ok and k[1] == good_dirs[1]:
                    first = ('join', good_dirs[0], k[2])
                    ex = v['exists'].get(first)
                    hyp = list(p.pc)
                    ctx.add(Obligation('%s/%s/path%d/lookup-takes-the-first-directory-that-has-the-file' % (fn, kind, pi), hyp,
                                       z3.Not(ex) if ex is not None else z3.BoolVal(False), 'INT', func=fn, kind='post', cover=False,
                                       meta={'replay': rp, 'props': ['C14']}))
                why = 'the include line is not replaced by read_lines(lookup result, include=True, include_dirs=include_dirs)'
            elif len(added) == 1 and isinstance(added[0], I.SObj) and added[0].cls.name == 'Line':
                ln = added[0]
                c = ln.fields.get('contents')
                base_ok = (ln.fields.get('file') is expected_file or (isinstance(expected_file, str) and ln.fields.get('file') == expected_file)) \
                    and ln.fields.get('number') is v['i'] and start_ok
                if c is v['raw']:
                    n_plain += 1
                    ok = base_ok
                    why = 'an ordinary line is not carried as Line(path, i, raw_line)'
                else:
                    n_bytes += 1
                    sizes = [e for e in eff if e[0] == 'getsize']
                    ok = base_ok and isinstance(c, Fmt) and len(c.args) == 2 and isinstance(c.args[0], PathTerm) and len(sizes) == 1 \
                        and sizes[0][1] is c.args[0] and c.args[0].key()[0] == 'join' and c.args[0].key()[1] in good_dirs \
                        and isinstance(c.fmt, str) and c.fmt.split()[0] == 'include_bytes' and c.fmt.count('{}') == 2
                    why = 'the include_bytes line does not carry the path the lookup found and its size'
            else:
                ok, why = False, 'unexpected lines appended: %r' % (added,)
            ctx.add(Obligation('%s/%s/path%d/splice' % (fn, kind, pi), list(p.pc), z3.BoolVal(bool(ok)), 'INT', func=fn, kind='post',
                               cover=False, meta={'replay': rp, 'props': ['C14', 'C10', 'C15', 'C17'], 'what': why}))
        ctx.add(Obligation('%s/%s/all-three-line-kinds-reached' % (fn, kind), [], z3.BoolVal(n_plain > 0 and n_inc > 0 and n_bytes > 0),
                           'finite', func=fn, kind='cover', cover=False, meta={'what': 'plain %d include %d include_bytes %d' % (n_plain, n_inc, n_bytes)}))


def replay_include_tree(ctx, d, model):
    from bounded import includes
    return includes.replay(ctx, d, model)


from pyvc import replays as _R  # noqa: E402
_R.register('include_tree', 'contracts.reader:replay_include_tree')


def task_reader(ctx):
    h = Harness(ctx)
    obligations_reader(ctx, h)
