"""Emission passes and sizes (asm.py resolve_instructions ... resolve_blobs, Align.resolution_size).
DESIGN 3.5, 4 C09 (1)(3)(5), C10 (1)(2)(3), C01 (5), C06.

A-STRUCT (assumed contract of the struct module, the dependency):
   struct.pack(f, v) for f = [<>] + one of bBhHiIlLqQ returns len == calcsize(f) bytes, the little-/big-endian
   two's-complement image of v, iff v is in the code's range (b: -2**7..2**7-1, B: 0..2**8-1, ... q/Q 64 bit), and
   raises struct.error otherwise;  len(struct.pack(f, ...)) == struct.calcsize(f) for every accepted format.
"""
import z3

from pyvc import interp as I
from pyvc.vc import Obligation
from contracts.encoders import Harness
from contracts import passes as P
from contracts import world as W

CODES = {'b': (1, True), 'B': (1, False), 'h': (2, True), 'H': (2, False), 'i': (4, True), 'I': (4, False),
         'l': (4, True), 'L': (4, False), 'q': (8, True), 'Q': (8, False)}


def fmt_info(fmt):
    """(size, signed, little_endian) of a one-code standard-size format, else None"""
    if isinstance(fmt, str) and len(fmt) == 2 and fmt[0] in '<>' and fmt[1] in CODES:
        sz, sg = CODES[fmt[1]]
        return sz, sg, fmt[0] == '<'
    return None


class PackCall:
    def __init__(self, fmt, value, pc_len):
        self.fmt, self.value, self.pc_len = fmt, value, pc_len


def install_struct(hooks, builder_notes):
    """struct.pack under A-STRUCT; records every call"""
    prev = hooks.get('external')

    def external(it, qual, args, kw):
        if qual == 'struct.pack':
            fmt, value = args[0], args[1] if len(args) > 1 else None
            info = fmt_info(fmt)
            if info is not None and I.is_intlike(value):
                sz, sg, little = info
                lo, hi = (-(1 << (8 * sz - 1)), (1 << (8 * sz - 1)) - 1) if sg else (0, (1 << (8 * sz)) - 1)
                ok = it.and_(it.compare(I.ast.GtE(), value, lo), it.compare(I.ast.LtE(), value, hi))
                if not it.truth(ok):
                    I.py_raise('struct.error', 'argument out of range')
                out = W.SymSized('bytes', sz)
                out.packed = (fmt, value)
                builder_notes.append(PackCall(fmt, value, len(it.run.pc)))
                return out
            if isinstance(fmt, I.Sym) and fmt.sort == 'str':
                # unknown format string: accepted or refused by struct; length == calcsize(fmt)
                n = prev(it, 'struct.calcsize', [fmt], {}) if prev else NotImplemented
                if n is NotImplemented:
                    raise I.Unsupported('struct.pack with symbolic format')
                acc = z3.Bool('pack_accepts_%d' % len(builder_notes))
                if not it.run.branch(acc):
                    I.py_raise('struct.error', 'argument out of range / bad format')
                out = W.SymSized('bytes', n)
                out.packed = (fmt, value)
                builder_notes.append(PackCall(fmt, value, len(it.run.pc)))
                return out
            if not I.is_intlike(value):
                I.py_raise('struct.error', 'required argument is not an integer')
            return NotImplemented
        return prev(it, qual, args, kw) if prev else NotImplemented
    hooks['external'] = external

    def int_to_bytes(it, value, args, kw):
        """int.to_bytes(length, byteorder, *, signed=False) of a symbolic integer: the same library contract as struct.pack
        with the standard-size code of that length and signedness (OverflowError outside its range); recorded as a pack call"""
        length = args[0] if args else kw.get('length', 1)
        order = args[1] if len(args) > 1 else kw.get('byteorder', 'big')
        signed = kw.get('signed', False)
        length = it.concretize(length, 'int.to_bytes with a symbolic length')
        if not isinstance(order, str) or not isinstance(signed, bool) or length not in (1, 2, 4, 8):
            raise I.Unsupported('int.to_bytes(%r, %r, signed=%r)' % (length, order, signed))
        code = {1: 'b', 2: 'h', 4: 'i', 8: 'q'}[length]
        fmt = ('<' if order == 'little' else '>') + (code if signed else code.upper())
        lo, hi = (-(1 << (8 * length - 1)), (1 << (8 * length - 1)) - 1) if signed else (0, (1 << (8 * length)) - 1)
        ok = it.and_(it.compare(I.ast.GtE(), value, lo), it.compare(I.ast.LtE(), value, hi))
        if not it.truth(ok):
            I.py_raise('OverflowError', 'int too big to convert')
        out = W.SymSized('bytes', length)
        out.packed = (fmt, value)
        builder_notes.append(PackCall(fmt, value, len(it.run.pc)))
        return out
    hooks['int_to_bytes'] = int_to_bytes


class EmitHarness(P.PassHarness):
    """PassHarness with the extra library contracts the emission passes need"""

    def contracts(self, builder):
        c = super().contracts(builder)
        h = self.h

        def encoder(it, f, args, kwargs):
            # contract of every format encoder (proved per mnemonic in contracts/encoders.py):
            # raises ValueError or returns 0 <= code < 2**16 (c*_type) / 2**32
            builder.encoder_calls.append((f.qualname, list(args), dict(kwargs)))
            ok = z3.Bool('enc_ok_%d' % len(builder.encoder_calls))
            if not it.run.branch(ok):
                I.py_raise('ValueError', 'operand not representable')
            code = it.dom.var('code_%d' % len(builder.encoder_calls))
            bits = 16 if f.qualname.startswith('c') else 32
            it.run.assume(z3.And(code.t >= 0, code.t < 2 ** bits))
            return code
        for name in ('r_type', 'i_type', 'ij_type', 's_type', 'b_type', 'u_type', 'j_type', 'fence', 'a_type', 'cr_type',
                     'ci_type', 'cia_type', 'ciu_type', 'cil_type', 'css_type', 'ciw_type', 'cl_type', 'cs_type', 'ca_type',
                     'cb_type', 'cbi_type', 'cj_type'):
            if name in h.env.vars:
                c[name] = encoder
        return c

    def run_body(self, run, cls, name, variant=None):
        return super().run_body(run, cls, name, variant='resolved')


def emit_obligations(ctx, ph, cls, tag, paths, replay):
    """size preservation and shape of what an emission pass appends"""
    fn = 'asm.' + ph.pass_name
    for i, p in enumerate(paths):
        if p.kind == 'raise':
            continue
        st = p.value
        pc = list(p.pc)
        old = P._t(None, st.old_size)
        new_total = z3.IntVal(0)
        for s in st.new_sizes:
            new_total = new_total + P._t(None, s)
        ctx.add(Obligation('%s/%s/emitted-size-equals-size()#%d' % (fn, tag, i), pc, new_total == old, 'INT', func=fn,
                           kind='post', meta={'replay': replay, 'props': ['C09', 'C10', 'C03', 'C08'],
                                              'what': '%s: bytes emitted for %s differ from its size()' % (ph.pass_name, tag),
                                              'key': '%s:%s:size' % (ph.pass_name, tag)}))
        ok_line = all(isinstance(o, I.SObj) and P.same_line_obj(o.fields.get('line'), st.item.fields.get('line')) for o in st.appended)
        ctx.add(Obligation('%s/%s/line-carried#%d' % (fn, tag, i), pc, z3.BoolVal(ok_line and st.out_same and len(st.appended) <= 1),
                           'INT', func=fn, kind='invariant', cover=False, meta={'replay': replay}))


def task_emit_pass(ctx, pass_name):
    import contracts.replay_passes  # noqa
    h = Harness(ctx)
    ph = EmitHarness(ctx, h, pass_name)
    ctx.under_contract(pass_name)
    ctx.trust('A-STRUCT: struct.pack/calcsize behave as documented for the standard-size codes bBhHiIlLqQ with < or >; int.to_bytes(n, order, signed=s) for n in 1,2,4,8 is the same encoder (OverflowError outside the range)')
    target_cls = {'resolve_instructions': 'Instruction', 'resolve_strings': 'String', 'resolve_sequences': 'Sequence',
                  'transform_shorthand_packs': 'ShorthandPack', 'resolve_packs': 'Pack', 'resolve_include_bytes': 'IncludeBytes'}.get(pass_name)
    for cls in P.item_classes(h):
        if cls.name == 'PseudoInstruction' and pass_name == 'resolve_instructions':
            # precondition: transform_pseudo_instructions leaves no pseudo-instruction (its step obligations
            # 'no-pseudo-instruction-survives'); `item.args()` on one is a TypeError
            continue
        names = P.names_of(ph, cls)
        name_arg = P.SymName(names)
        tag = cls.name
        replay = ('pass_step', {'pass': pass_name, 'cls': cls.name})
        packs = []

        def body(run, cls=cls, name_arg=name_arg, packs=packs):
            if name_arg.names == [None]:
                nm = I.Sym('str', z3.Int('item_name'))
            else:
                nm = I.Sym('str', z3.Int('item_name'))
                run.assume(z3.Or(*[nm.t == I.str_id(k) for k in name_arg.names]))
            return ph.run_body_emit(run, cls, nm, packs)
        try:
            paths = I.explore(body, I.IntDom)
        except I.Unsupported as e:
            ctx.undecide('asm.%s/%s' % (pass_name, tag), 'construct not modelled: %s' % e)
            continue
        emit_obligations(ctx, ph, cls, tag, paths, replay)
        P.exception_obligations(ctx, ph, cls, tag, paths, replay)
        if pass_name == 'resolve_instructions' and cls.issub(h.env.vars['Instruction']) and cls.name != 'PseudoInstruction':
            instruction_obligations(ctx, ph, cls, tag, paths, replay)
        if pass_name in ('transform_shorthand_packs', 'resolve_sequences', 'resolve_packs'):
            data_obligations(ctx, ph, cls, tag, paths, replay)


def _run_body_emit(self, run, cls, nm, packs):
    # wrap run_body: install struct hooks by patching make_hooks for this run
    orig = P.make_hooks

    def mk(builder):
        hooks = orig(builder)
        builder.encoder_calls = []
        builder.pack_calls = []
        install_struct(hooks, builder.pack_calls)
        install_misc(hooks, builder)
        return hooks
    P.make_hooks = mk
    try:
        return self.run_body(run, cls, nm)
    finally:
        P.make_hooks = orig


EmitHarness.run_body_emit = _run_body_emit


def install_misc(hooks, builder):
    """int(token, base=0) of a data value; open() of an include_bytes path; iteration over Sequence.values"""
    parsed = {}

    builder.parsed_values = parsed

    def int_of_str(it, s, base):
        key = s.t.get_id()
        if key not in parsed:
            parsed[key] = (z3.Bool('parses_%d' % len(parsed)), it.dom.var('intval_%d' % len(parsed)))
        ok, v = parsed[key]
        if not it.run.branch(ok):
            I.py_raise('ValueError', 'invalid literal for int() with base 0')
        return v
    hooks['int_of_str'] = int_of_str

    def iterate(it, v):
        if isinstance(v, W.SymSized) and v.tag == 'list':
            # Sequence.values: unrolled for lengths 0..3 (the per-value body is fully symbolic)
            for n in range(0, 4):
                if it.run.branch(v.length.t == n):
                    return [I.Sym('str', z3.Int('value_tok_%d' % k)) for k in range(n)]
            raise I.Infeasible()
        return None
    hooks['iterate'] = iterate
    prev = hooks.get('external')

    def external(it, qual, args, kw):
        if qual == 'open':
            builder.opened = getattr(builder, 'opened', []) + [args[0]]
            fh = I.Opaque('file')
            return fh
        return prev(it, qual, args, kw) if prev else NotImplemented
    hooks['external'] = external

    def opaque_attr(it, obj, name, prev_attr=hooks.get('opaque_attr')):
        if isinstance(obj, I.Opaque) and obj.tag == 'file':
            if name == 'read':
                def read(it2, a, k):
                    n = it2.dom.var('file_len')
                    it2.run.assume(n.t >= 0)
                    return W.SymSized('bytes', n)
                return I.Builtin('file.read', read)
            if name in ('__enter__', '__exit__', 'close'):
                return I.Builtin('file.' + name, lambda it2, a, k: obj)
        return prev_attr(it, obj, name)
    hooks['opaque_attr'] = opaque_attr


def instruction_obligations(ctx, ph, cls, tag, paths, replay):
    """C01 (5) / C02 / C06: resolve_instructions hands the item's args() to INSTRUCTIONS[item.name], packs the code
    little-endian with <H for compressed items and <I otherwise, and turns ValueError into AssemblerError(item.line)"""
    fn = 'asm.resolve_instructions'
    h = ph.h
    compressed = cls.issub(h.env.vars['CompressedInstruction'])
    for i, p in enumerate(paths):
        st = p.notes.get('step') if p.kind == 'raise' else p.value
        if st is None:
            continue
        b = st.builder
        if p.kind == 'raise':
            e = p.value
            if e.cls.name == 'AssemblerError':
                ok = P.same_line_obj(e.fields.get('line'), st.item.fields.get('line'))
                ctx.add(Obligation('%s/%s/refusal-carries-item-line#%d' % (fn, tag, i), list(p.pc), z3.BoolVal(bool(ok)), 'INT',
                                   func=fn, kind='raises', cover=False, meta={'replay': replay, 'props': ['C06', 'C15', 'C01', 'C02']}))
            else:
                ctx.add(Obligation('%s/%s/only-AssemblerError-escapes#%d(%s)' % (fn, tag, i, e.cls.name), list(p.pc) + valid_regs(st),
                                   z3.BoolVal(False), 'INT', func=fn, kind='raises', cover=False,
                                   meta={'replay': replay, 'props': ['C06', 'C15']}))
            continue
        calls = b.encoder_calls
        packs = b.pack_calls
        ok = len(calls) == 1 and len(packs) == 1 and len(st.appended) == 1 and st.appended[0].cls.name == 'Blob'
        if ok:
            fmt, val = packs[0].fmt, packs[0].value
            ok = fmt == ('<H' if compressed else '<I') and isinstance(val, I.Sym) and val.t.eq(z3.Int('code_1'))
            data = st.appended[0].fields.get('data')
            ok = ok and getattr(data, 'packed', None) is not None and data.packed[1] is val
        ctx.add(Obligation('%s/%s/little-endian-%s-of-the-encoder-result#%d' % (fn, tag, '<H' if compressed else '<I', i), list(p.pc),
                           z3.BoolVal(bool(ok)), 'INT', func=fn, kind='post', cover=False,
                           meta={'replay': replay, 'props': ['C01', 'C02', 'C09', 'C06']}))
        # plumbing: positional operands are the item's fields in constructor order (= documented operand order)
        if len(calls) == 1:
            q, args, kwargs = calls[0]
            fields = [v for k, v in st.item.fields.items() if k not in ('line', 'name', 'is_auipc_jump')]
            got = list(args) + [kwargs[k] for k in ('aq', 'rl') if k in kwargs]
            same = len(got) == len(fields) and all(a is f for a, f in zip(got, fields))
            ctx.add(Obligation('%s/%s/operands-reach-the-encoder-in-field-order#%d' % (fn, tag, i), list(p.pc), z3.BoolVal(bool(same)),
                               'INT', func=fn, kind='post', cover=False, meta={'replay': replay, 'props': ['C01', 'C02', 'C13']}))


def valid_regs(st):
    return [r.valid for r in st.info.get('regs', {}).values()]


def data_obligations(ctx, ph, cls, tag, paths, replay):
    """C10 (1)(2): the struct format chosen for a value accepts exactly the documented range and is little-endian"""
    fn = 'asm.' + ph.pass_name
    widths = {'bytes': 1, 'shorts': 2, 'ints': 4, 'longs': 4, 'longlongs': 8, 'db': 1, 'dh': 2, 'dw': 4, 'dd': 8}
    if cls.name not in ('Sequence', 'ShorthandPack', 'Pack'):
        return
    for i, p in enumerate(paths):
        st = p.notes.get('step') if p.kind == 'raise' else p.value
        if st is None:
            continue
        if cls.name == 'ShorthandPack' and p.kind == 'return':
            # produces Pack(line, fmt, imm) with fmt concrete
            if len(st.appended) != 1 or st.appended[0].cls.name != 'Pack':
                continue
            fmt = st.appended[0].fields.get('fmt')
            v = st.info.get('immval')
            nm = st.item.fields.get('name')
            info = fmt_info(fmt)
            goal = z3.BoolVal(False)
            if info is not None and v is not None and isinstance(nm, I.Sym):
                sz, sg, little = info
                # under this path's conditions the chosen code accepts v  <=>  -2**(8w-1) <= v < 2**(8w), w documented
                conds = []
                for d, w in widths.items():
                    if not d.startswith('d'):
                        continue
                    lo, hi = (-(1 << (8 * sz - 1)), (1 << (8 * sz - 1)) - 1) if sg else (0, (1 << (8 * sz)) - 1)
                    acc = z3.And(v.t >= lo, v.t <= hi)
                    doc = z3.And(v.t >= -(1 << (8 * w - 1)), v.t < (1 << (8 * w)))
                    conds.append(z3.Implies(nm.t == I.str_id(d), z3.And(z3.BoolVal(little and sz == w), acc == doc)))
                goal = z3.And(*conds)
            ctx.add(Obligation('%s/%s/format-accepts-exactly-the-documented-range#%d' % (fn, tag, i), list(p.pc), goal, 'INT',
                               func=fn, kind='post', meta={'replay': ('data_range', {}), 'props': ['C10']}))
        if cls.name == 'Sequence':
            b = st.builder
            nm = st.item.fields.get('name')
            origs = [v for _, v in getattr(b, 'parsed_values', {}).values()]     # int(token, 0) of each value, in order
            packs = b.pack_calls
            if not isinstance(nm, I.Sym):
                continue
            # (1) every value that reaches struct.pack: little-endian, documented width, the bytes are the image of the
            #     ORIGINAL value modulo 2**(8w), and the original value is inside the documented range
            for k, pk in enumerate(packs):
                info = fmt_info(pk.fmt)
                goal = z3.BoolVal(False)
                if info is not None and isinstance(pk.value, I.Sym) and k < len(origs):
                    sz, sg, little = info
                    v0 = origs[k].t
                    conds = []
                    for d, w in widths.items():
                        if d.startswith('d'):
                            continue
                        doc = z3.And(v0 >= -(1 << (8 * w - 1)), v0 < (1 << (8 * w)))
                        conds.append(z3.Implies(nm.t == I.str_id(d), z3.And(z3.BoolVal(little and sz == w), doc,
                                                                            (pk.value.t - v0) % (1 << (8 * w)) == 0)))
                    goal = z3.And(*conds)
                ctx.add(Obligation('%s/%s/value%d-emitted-as-little-endian-image-of-a-value-in-the-documented-range#%d' % (fn, tag, k, i),
                                   list(p.pc[:pk.pc_len]), goal, 'INT', func=fn, kind='post', cover=False,
                                   meta={'replay': ('data_range', {}), 'props': ['C10'],
                                         'what': 'a sequence value outside its documented range is emitted (wrapped) or the bytes are not its little-endian image'}))
            if p.kind == 'return' and len(packs) != len(origs):
                # the per-value obligations above are stated on the library encoder calls (struct.pack / int.to_bytes): a
                # returning path on which some value did not go through one of them is not covered by them - undecided, never held
                ctx.undecide('%s/%s/every-value-goes-through-a-modelled-encoder#%d' % (fn, tag, i),
                             '%d value(s) parsed, %d encoder call(s) recorded' % (len(origs), len(packs)))
            # (2) a refusal because of a value means that value is outside the documented range (legal values are accepted)
            if p.kind == 'raise' and p.value.cls.name in ('struct.error', 'AssemblerError') and len(origs) > len(packs):
                k = len(packs)
                v0 = origs[k].t
                all_parse = [ok for ok, _ in b.parsed_values.values()]      # a token that is not an integer is a legitimate refusal
                conds = []
                for d, w in widths.items():
                    if d.startswith('d'):
                        continue
                    doc = z3.And(v0 >= -(1 << (8 * w - 1)), v0 < (1 << (8 * w)))
                    conds.append(z3.Implies(nm.t == I.str_id(d), z3.Not(doc)))
                ctx.add(Obligation('%s/%s/value%d-refused-only-outside-the-documented-range#%d' % (fn, tag, k, i), list(p.pc) + all_parse, z3.And(*conds),
                                   'INT', func=fn, kind='raises', cover=False, meta={'replay': ('data_range', {}), 'props': ['C10']}))


# ---------------------------------------------------------------------------
# Align.resolution_size, symbolic N >= 1 (C09 O1)

def obligations_resolution_size(ctx, h):
    ctx.under_contract('Align.resolution_size')
    ctx.under_contract('Align.size')
    Align = h.env.vars['Align']
    holder = {}

    def body(run):
        it = I.Interp(run, h.base_it.mods)
        n = run.dom.var('N')
        pos = run.dom.var('position')
        run.assume(n.t >= 1)
        run.assume(pos.t >= 0)
        obj = it.instantiate(Align, [I.Opaque('line'), n], {})
        return it.call(it.getattr(obj, 'resolution_size'), [pos], {})
    paths = I.explore(body, I.IntDom)
    N, pos = z3.Int('N'), z3.Int('position')
    q, q2, r2 = z3.Int('q'), z3.Int('q2'), z3.Int('r2')
    for i, p in enumerate(paths):
        if p.kind != 'return' or not I.is_intlike(p.value):
            ctx.add(Obligation('asm.Align.resolution_size/returns#%d' % i, list(p.pc), z3.BoolVal(False), 'INT',
                               func='asm.Align.resolution_size', kind='post', cover=False, meta={'replay': ('align_size', {})}))
            continue
        r = p.value.t if isinstance(p.value, I.Sym) else z3.IntVal(p.value)
        # 0 <= r < N ; position + r is a multiple of N ; no smaller non-negative padding aligns
        ctx.add(Obligation('asm.Align.resolution_size/range#%d' % i, list(p.pc), z3.And(r >= 0, r < N), 'INT',
                           func='asm.Align.resolution_size', kind='post', meta={'replay': ('align_size', {})}))
        ctx.add(Obligation('asm.Align.resolution_size/aligned#%d' % i, list(p.pc), (pos + r) % N == 0, 'INT',
                           func='asm.Align.resolution_size', kind='post', cover=False, meta={'replay': ('align_size', {})}))
        ctx.add(Obligation('asm.Align.resolution_size/fewest#%d' % i, list(p.pc) + [r2 >= 0, r2 < r, (pos + r2) % N == 0],
                           z3.BoolVal(False), 'INT', func='asm.Align.resolution_size', kind='post', cover=False,
                           meta={'replay': ('align_size', {})}))


def replay_align_size(ctx, d, model):
    from pyvc.real import real
    n, pos = int(model.get('N', 1)), int(model.get('position', 0))
    r = real().req({'op': 'method', 'obj': {'__item__': 'Align', 'args': [None, n]}, 'name': 'resolution_size', 'args': [pos]})
    want = (-pos) % n
    return {'confirmed': r.get('ok') != want, 'key': 'align:%d@%d' % (n, pos % n),
            'what': 'align %d at offset %d pads %r bytes, the fewest that align are %d' % (n, pos, r.get('ok', r), want),
            'input': {'N': n, 'position': pos}, 'observed': r}


def replay_data_range(ctx, d, model):
    from contracts.replay_passes import _probe
    return _probe(ctx, ['data'], {'data', 'accept', 'must-assemble'})


from pyvc import replays as _R  # noqa: E402
_R.register('align_size', 'contracts.emit:replay_align_size')
_R.register('data_range', 'contracts.emit:replay_data_range')


def task_resolution_size(ctx):
    h = Harness(ctx)
    obligations_resolution_size(ctx, h)


# ---------------------------------------------------------------------------
# resolve_blobs: output is the in-order concatenation (loop invariant over sequences)

def task_resolve_blobs(ctx):
    """loop invariant `output == data(items[0]) ++ ... ++ data(items[k-1])`: the body extends `output` by exactly
    item.data and nothing else; a non-Blob raises ValueError"""
    h = Harness(ctx)
    ctx.under_contract('resolve_blobs')
    node = h.mod.func_node('resolve_blobs')
    func = h.env.vars['resolve_blobs']
    loop = [s for s in node.body if isinstance(s, I.ast.For)][0]
    pre = node.body[:node.body.index(loop)]
    post = node.body[node.body.index(loop) + 1:]
    Blob = h.env.vars['Blob']
    results = {}
    for kind in ('Blob', 'other'):
        def body(run, kind=kind):
            it = I.Interp(run, h.base_it.mods, hooks={'opaque_attr': _extlog_attr})
            fenv = I.Env(func.env)
            fenv.vars['items'] = I.Opaque('items')
            it.exec_block(pre, fenv)
            outname = [s.value.id for s in post if isinstance(s, I.ast.Return) and isinstance(s.value, I.ast.Name)][0]
            init = fenv.vars[outname]
            init = bytearray() if isinstance(init, I.ByteBuf) and not init.parts else init
            acc = I.ByteBuf()
            log = acc.parts
            fenv.vars[outname] = acc
            data = I.Opaque('item.data')
            if kind == 'Blob':
                item = it.instantiate(Blob, [I.Opaque('line'), data], {})
            else:
                item = it.instantiate(h.env.vars['String'], [I.Opaque('line'), I.Opaque('value')], {})
            fenv.vars[loop.target.id] = item
            try:
                it.exec_block(loop.body, fenv)
            except I._Continue:
                pass
            return (init, log, data, fenv.vars[outname] is acc)
        results[kind] = I.explore(body, I.IntDom)
    ok_blob = all(p.kind == 'return' and p.value[0] == bytearray() and len(p.value[1]) == 1 and p.value[1][0] is p.value[2]
                  and p.value[3] for p in results['Blob']) and len(results['Blob']) == 1
    ok_other = all(p.kind == 'raise' and p.value.cls.name == 'ValueError' for p in results['other'])
    ctx.add(Obligation('asm.resolve_blobs/body-extends-output-by-exactly-item.data', [], z3.BoolVal(bool(ok_blob)), 'finite',
                       func='asm.resolve_blobs', kind='invariant', cover=False,
                       meta={'replay': ('pass_step', {'pass': 'resolve_blobs', 'cls': 'Blob'}), 'props': ['C09']}))
    ctx.add(Obligation('asm.resolve_blobs/non-blob-is-refused', [], z3.BoolVal(bool(ok_other)), 'finite', func='asm.resolve_blobs',
                       kind='raises', cover=False, meta={'replay': ('pass_step', {'pass': 'resolve_blobs', 'cls': 'String'}), 'props': ['C09']}))


class ExtLog(I.Opaque):
    """stand-in for the output bytearray: records what is appended"""

    def __init__(self, log):
        super().__init__('output')
        self.log = log


def _extlog_attr(it, obj, name):
    if isinstance(obj, ExtLog) and name == 'extend':
        return I.Builtin('bytearray.extend', lambda it2, a, k: obj.log.append(a[0]))
    raise I.Unsupported('attribute %s of %r' % (name, obj))
