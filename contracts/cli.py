"""Effect-ordering obligations on asm.cli_main (asm.py, last function).  DESIGN 3.6, 4 C17.

cli_main is executed by the interpreter with argparse results as ARBITRARY values (every option present or
absent, any strings), `assemble` replaced by its contract (returns the binary and fills the dicts, or raises
AssemblerError, or lets any other exception escape), and the filesystem / intelhex primitives replaced by
effect-recording stubs.  Obligations per path:
   (a) every file-write effect is preceded by a normal return of assemble
   (b) a path that ends in a failure (SystemExit with a message, any exception) has written nothing
   (c) the bytes written to -o are assemble's return value; the -l lines are '{} 0x{:08x}\\n' of each entry of the
       dict assemble filled; bin2hex is given the -o file, <-o>.hex and int(offset, 0)
"""
import z3

from pyvc import interp as I
from pyvc.vc import Obligation
from contracts.encoders import Harness


class Fmt(I.Opaque):
    def __init__(self, fmt, args):
        super().__init__('str')
        self.fmt, self.args = fmt, args


class FileStub(I.Opaque):
    def __init__(self, path, mode):
        super().__init__('file')
        self.path, self.mode = path, mode


def run_cli(h, run, assemble_outcomes=('ok', 'AssemblerError', 'other'), argc=2):
    eff = run.effects
    dom = run.dom
    binary = I.Opaque('assembled-binary')
    lab_k, lab_v = I.Sym('str', z3.Int('label_name')), I.Sym('int', z3.Int('label_value'))

    def opt(name, sort='str'):
        present = z3.Bool('has_' + name)
        return present, I.Sym('str', z3.Int('arg_' + name))

    ns_fields = {}
    for nm in ('input_asm', 'output'):
        ns_fields[nm] = I.Sym('str', z3.Int('arg_' + nm))
    for nm in ('verbose', 'compress', 'include_definitions', 'version'):
        ns_fields[nm] = I.Sym('bool', z3.Bool('arg_' + nm))
    Namespace = I.ClassVal('Namespace', [I.EXC['object']], {})

    def mk_ns(it):
        f = dict(ns_fields)
        for nm in ('labels', 'hex_offset'):
            f[nm] = I.Sym('str', z3.Int('arg_' + nm)) if it.run.branch(z3.Bool('has_' + nm)) else None
        f['include'] = [I.Sym('str', z3.Int('arg_include0'))] if it.run.branch(z3.Bool('has_include')) else None
        return I.SObj(Namespace, f)

    parser = I.ModuleStub('parser', {})
    parser.attrs['add_argument'] = I.Builtin('add_argument', lambda it, a, k: None)
    parser.attrs['parse_args'] = I.Builtin('parse_args', lambda it, a, k: mk_ns(it))

    def p_exit(it, a, k):
        # argparse.ArgumentParser.exit(status=0, message=None): writes the message to stderr and calls sys.exit(status)
        status = k.get('status', a[0] if a else 0)
        raise I.PyRaise(it.instantiate(I.EXC['SystemExit'], [status], {}))

    def p_error(it, a, k):
        raise I.PyRaise(it.instantiate(I.EXC['SystemExit'], [2], {}))
    parser.attrs['exit'] = I.Builtin('parser.exit', p_exit)
    parser.attrs['error'] = I.Builtin('parser.error', p_error)

    def sym_truth_of_str(it, s):
        # truthiness of an option string: argparse never yields '' for a given option unless the user passes it
        return True

    def external(it, qual, args, kw):
        if qual == 'argparse.ArgumentParser':
            return parser
        if qual in ('os.path.exists', 'os.path.isdir', 'os.path.isfile'):
            return I.Sym('bool', z3.Bool(it.run.fresh_name(qual.split('.')[-1])))
        if qual in ('os.path.abspath', 'os.path.dirname', 'os.path.join', 'os.path.basename'):
            return I.Opaque('path')
        if qual == 'logging.basicConfig':
            return None
        if qual == 'open':
            path, mode = args[0], (args[1] if len(args) > 1 else kw.get('mode', 'r'))
            eff.append(('open', path, mode))
            return FileStub(path, mode)
        if qual == 'intelhex.bin2hex':
            eff.append(('bin2hex',) + tuple(args))
            return None
        return NotImplemented

    def opaque_attr(it, obj, name):
        if isinstance(obj, FileStub):
            if name in ('write', 'writelines'):
                return I.Builtin('file.' + name, lambda it2, a, k: eff.append((name, obj, a[0])))
            if name in ('close', '__enter__', '__exit__'):
                return I.Builtin('file.' + name, lambda it2, a, k: None)
        raise I.Unsupported('attribute %s of %r' % (name, obj))

    def opaque_index(it, obj, idx):
        if isinstance(obj, I.Opaque) and obj.tag == 'sys.argv':
            return I.Sym('str', z3.Int('argv%s' % idx))
        return I.Opaque('element')

    def b_len(it, v):
        if isinstance(v, I.Opaque) and v.tag == 'sys.argv':
            n = I.Sym('int', z3.Int('argc'))
            it.run.assume(n.t >= 1)
            return n
        raise I.Unsupported('len of %r' % (v,))

    def int_of_str(it, s, base):
        ok = z3.Bool('int_parses_' + str(s.t))
        if not it.run.branch(ok):
            I.py_raise('ValueError', 'invalid literal')
        return I.Sym('int', z3.Int('int_of_' + str(s.t)))

    def assemble_contract(it, f, args, kwargs):
        eff.append(('assemble-called', args, dict(kwargs)))
        labels = kwargs.get('labels')
        if 'ok' in assemble_outcomes and it.run.branch(z3.Bool('assemble_ok')):
            if isinstance(labels, dict):
                labels[lab_k] = lab_v
            eff.append(('assemble-returned',))
            return binary
        if it.run.branch(z3.Bool('assemble_raises_AssemblerError')):
            raise I.PyRaise(it.instantiate(h.env.vars['AssemblerError'], [I.Sym('str', z3.Int('error_message')), I.Opaque('line')], {}))
        I.py_raise('RuntimeError', 'any other exception escaping assemble')

    def symstr_method(it, s, name):
        if name == 'format':
            return I.Builtin('str.format', lambda it2, a, k: Fmt(s, a))
        if name in ('startswith', 'endswith', '__contains__', 'isdigit', 'isidentifier'):
            # a predicate of an arbitrary string: either way
            return I.Builtin('str.' + name, lambda it2, a, k: bool(it2.run.branch(z3.Bool(it2.run.fresh_name('str_' + name)))))
        return None

    hooks = {'external': external, 'opaque_attr': opaque_attr, 'opaque_index': opaque_index, 'len': b_len,
             'int_of_str': int_of_str, 'symstr_method': symstr_method}
    it = I.Interp(run, h.base_it.mods, contracts={'assemble': assemble_contract}, hooks=hooks)
    # str.format on literals with symbolic arguments keeps the pieces
    orig_cm = it.concrete_method

    def concrete_method(obj, name):
        if isinstance(obj, str) and name == 'format':
            def fmt(it2, a, k, obj=obj):
                if any(isinstance(x, (I.Sym, I.Opaque, I.SObj)) for x in a):
                    return Fmt(obj, tuple(a))
                return obj.format(*a, **k)
            return I.Builtin('str.format', fmt)
        return orig_cm(obj, name)
    it.concrete_method = concrete_method
    # truthiness of option strings
    orig_truth = it.truth

    def truth(v):
        if isinstance(v, I.Sym) and v.sort == 'str':
            return True
        return orig_truth(v)
    it.truth = truth
    run.notes['cli'] = {'binary': binary, 'lab_k': lab_k, 'lab_v': lab_v}
    # sys.argv: the program name, optionally followed by one arbitrary argument (what argparse yields is modelled separately)
    sysmod = h.base_it.mods['asm'].vars.get('sys')
    if sysmod is not None:
        sysmod.attrs['argv'] = ['bronzebeard'] + [I.Sym('str', z3.Int('argv%d' % k)) for k in range(1, argc)]
    return it.call(h.env.vars['cli_main'], [], {})


WRITES = ('open-w', 'write', 'writelines', 'bin2hex')


def classify_effects(effects):
    out = []
    for e in effects:
        if e[0] == 'open':
            mode = e[2]
            if isinstance(mode, str) and any(c in mode for c in 'wax+'):
                out.append(('open-w', e))
            else:
                out.append(('open-r', e))
        else:
            out.append((e[0], e))
    return out


def obligations_cli(ctx, h):
    ctx.under_contract('cli_main')
    ctx.assume('assemble is replaced by its contract: returns the binary and fills labels/constants, or raises AssemblerError, or lets another exception escape')
    ctx.assume('I/O errors of the writes themselves (disk full, permission) are faults of the environment, outside the property')
    paths = I.explore(lambda run: run_cli(h, run, argc=2), I.IntDom) + I.explore(lambda run: run_cli(h, run, argc=1), I.IntDom)
    fn = 'asm.cli_main'
    n_ok = 0
    for i, p in enumerate(paths):
        effs = classify_effects(p.effects)
        kinds = [k for k, _ in effs]
        first_write = next((j for j, k in enumerate(kinds) if k in WRITES), None)
        returned = next((j for j, k in enumerate(kinds) if k == 'assemble-returned'), None)
        rp = ('cli', {'trace': [k for k in kinds], 'end': p.kind if p.kind == 'return' else p.exc_name})
        # (a)
        ok_a = first_write is None or (returned is not None and returned < first_write)
        ctx.add(Obligation('%s/path%d/writes-only-after-assemble-returned' % (fn, i), list(p.pc), z3.BoolVal(ok_a), 'INT', func=fn,
                           kind='effect', cover=False, meta={'replay': rp, 'what': 'an output file is written before assemble() returned'}))
        # (b0) a run in which assemble did not return (it refused the program, or something escaped from it) ends with a
        #      non-zero exit status: an exception other than SystemExit(0) / SystemExit(None)
        called = any(k == 'assemble-called' for k in kinds)
        if called and returned is None:
            nonzero = p.kind == 'raise'
            if nonzero and p.exc_name == 'SystemExit':
                code = p.value.fields.get('args', ())
                nonzero = not (len(code) == 0 or code[0] is None or (isinstance(code[0], int) and not isinstance(code[0], bool) and code[0] == 0)
                               or code[0] is False)
            ctx.add(Obligation('%s/path%d/a-failed-assembly-ends-with-a-non-zero-exit-status' % (fn, i), list(p.pc), z3.BoolVal(bool(nonzero)), 'INT',
                               func=fn, kind='effect', cover=False,
                               meta={'replay': rp, 'what': 'assemble() failed but the run ends %s' % ('normally (exit status 0)' if p.kind == 'return' else 'with SystemExit(0)')}))
        # (b)
        if p.kind == 'raise':
            ok_b = first_write is None
            ctx.add(Obligation('%s/path%d/failure-exit-after-no-write(%s)' % (fn, i, p.exc_name), list(p.pc), z3.BoolVal(ok_b), 'INT',
                               func=fn, kind='effect', cover=False,
                               meta={'replay': rp, 'what': 'the run fails (%s) after output files were already written' % p.exc_name}))
        else:
            n_ok += 1
            # (c) content
            info = p.notes['cli']
            ok_c = True
            why = ''
            opens = [e for k, e in effs if k == 'open-w']
            writes = [e for k, e in effs if k in ('write', 'writelines')]
            outw = [e for e in writes if isinstance(e[1], FileStub) and e[1].mode == 'wb']
            if len(outw) != 1 or outw[0][2] is not info['binary']:
                ok_c, why = False, 'the -o file does not receive exactly the assembled bytes'
            elif not (isinstance(outw[0][1].path, I.Sym) and str(outw[0][1].path.t) == 'arg_output'):
                ok_c, why = False, 'the binary is not written to the -o path'
            labw = [e for e in writes if isinstance(e[1], FileStub) and e[1].mode == 'w']
            for e in labw:
                lines = e[2]
                good = isinstance(lines, list) and len(lines) == 1 and isinstance(lines[0], Fmt) and lines[0].fmt == '{} 0x{:08x}\n' \
                    and len(lines[0].args) == 2 and lines[0].args[0] is info['lab_k'] and lines[0].args[1] is info['lab_v'] \
                    and isinstance(e[1].path, I.Sym) and str(e[1].path.t) == 'arg_labels'
                if not good:
                    ok_c, why = False, 'the -l file is not one "name 0xADDRESS" line per label of the dict assemble filled'
            for k, e in effs:
                if k == 'bin2hex':
                    a = e[1:]
                    good = len(a) == 3 and isinstance(a[0], I.Sym) and str(a[0].t) == 'arg_output' and isinstance(a[2], I.Sym) \
                        and str(a[2].t).startswith('int_of_arg_hex_offset')
                    if not good:
                        ok_c, why = False, 'bin2hex is not given the -o file and int(--hex-offset, 0)'
            ctx.add(Obligation('%s/path%d/written-content' % (fn, i), list(p.pc), z3.BoolVal(ok_c), 'INT', func=fn, kind='effect',
                               cover=False, meta={'replay': rp, 'what': why}))
            # labels / hex written iff requested
            want_l = z3.Bool('has_labels')
            want_h = z3.Bool('has_hex_offset')
            ctx.add(Obligation('%s/path%d/labels-and-hex-iff-requested' % (fn, i), list(p.pc),
                               z3.And(want_l == z3.BoolVal(bool(labw)), want_h == z3.BoolVal(any(k == 'bin2hex' for k, _ in effs))),
                               'INT', func=fn, kind='effect', meta={'replay': rp, 'what': '-l / --hex-offset outputs do not follow the options'}))
    if n_ok == 0:
        ctx.errors.append('asm.cli_main: no successful path')
    ctx.samples.append({'cli_paths': len(paths), 'successful': n_ok})


_CLI_REPLAY = []


def replay_cli(ctx, d, model):
    """drive the real entry point in subprocesses (option lattice x faults); computed once per check run"""
    from bounded import cli_runs
    if not _CLI_REPLAY:
        _CLI_REPLAY.append(cli_runs.replay_from_trace(ctx, d, model))
    return _CLI_REPLAY[0]


from pyvc import replays as _R  # noqa: E402
_R.register('cli', 'contracts.cli:replay_cli')


def task_cli(ctx):
    h = Harness(ctx)
    obligations_cli(ctx, h)
