"""Symbolic program state for loop-body (Hoare step) verification of the assembler passes.
DESIGN 2.2 (objects, dicts), 2.4 (loop rule), 3.4 (layout ghost).

  SymLabels  - the `labels` dict: name -> value.  State at the loop head is an uninterpreted function L0 (and a
               presence predicate); the pointwise shrink `{k: v - d for k, v in labels.items() if v > p}` followed
               by `labels.update(...)` is executed through the interpreter on a placeholder (k, v) and composed
               into a value transformer xf, so any variation of the idiom (other guard, other amount) is
               interpreted, not pattern-matched.
  SymConsts  - the `constants` dict.
  SymExpr    - an immediate expression the parser produced and nothing is known about: `eval` is a
               deterministic function of (expression, position, table state) that returns an int or raises
               AssemblerError with the line it was given (contract of Expr.eval; bodies of Position/Offset/Hi/Lo
               are verified against it in contracts/exprs.py).
  RegOperand - a register field in any spelling / type (str token, or int after alias resolution).
"""
import ast

import z3

from pyvc import interp as I
from contracts.encoders import RegOperand


class SymSized(I.Opaque):
    """opaque sequence value with a symbolic non-negative length"""

    def __init__(self, tag, length):
        super().__init__(tag)
        self.length = length


class SymLabelsUpdate:
    def __init__(self, kk, vv, cond, val):
        self.kk, self.vv, self.cond, self.val = kk, vv, cond, val


class SymLabels(I.SymDictBase):
    def __init__(self, run, name='L'):
        self.run = run
        self.name = name
        self.val0 = z3.Function(name + '0', z3.IntSort(), z3.IntSort())
        self.has0 = z3.Function(name + '0has', z3.IntSort(), z3.BoolSort())
        self.xf = lambda t: t
        self.version = 0
        self.writes = []          # explicit stores labels[k] = v (resolve_labels)
        self.updates = []         # (cond(vv), val(vv), vv) in order

    def _kid(self, it, k):
        if isinstance(k, str):
            return z3.IntVal(I.str_id(k))
        if isinstance(k, I.Sym) and k.sort == 'str':
            return k.t
        if isinstance(k, I.Sym):
            return None
        raise I.Unsupported('label key %r' % (k,))

    def contains(self, it, x):
        kid = self._kid(it, x)
        if kid is None:
            return False
        acc = I.Sym('bool', self.has0(kid))
        for wk, wv in self.writes:
            acc = it.or_(acc, I.Sym('bool', wk == kid))
        return acc

    def value_of(self, kid):
        t = self.xf(self.val0(kid))
        for wk, wv in self.writes:
            t = z3.If(wk == kid, wv, t)
        return t

    def getitem(self, it, k):
        if not it.truth(self.contains(it, k)):
            I.py_raise('KeyError', k)
        return I.Sym('int', self.value_of(self._kid(it, k)))

    def setitem(self, it, k, v):
        kid = self._kid(it, k)
        if kid is None:
            raise I.Unsupported('label store with non-string key')
        vt = it.dom.lift(v).t if I.is_intlike(v) else None
        if vt is None:
            raise I.Unsupported('label store of non-integer')
        self.writes.append((kid, vt))
        self.version += 1
        it.note_mutation(self, 'setitem')

    def getattr(self, it, name):
        if name == 'items':
            return I.Builtin('labels.items', lambda it, a, k: I.SymItems(self))
        if name == 'update':
            return I.Builtin('labels.update', self._update)
        if name == 'get':
            def get(it, a, k):
                if it.truth(self.contains(it, a[0])):
                    return I.Sym('int', self.value_of(self._kid(it, a[0])))
                return a[1] if len(a) > 1 else None
            return I.Builtin('labels.get', get)
        raise I.Unsupported('labels.%s' % name)

    def comprehension(self, it, node, env):
        g = node.generators[0]
        n = next(self.run.counter)
        kk = I.Sym('str', z3.Int('lbl_k!%d' % n))
        vv = I.Sym('int', z3.Int('lbl_v!%d' % n))
        e2 = I.Env(env)
        it.assign(g.target, (kk, vv), e2)
        cond = z3.BoolVal(True)
        for c in g.ifs:
            cv = it.eval(c, e2)
            b = it.as_bool_sym(cv)
            if b is None:
                raise I.Unsupported('label comprehension filter is not a boolean term')
            cond = z3.And(cond, b)
        key = it.eval(node.key, e2)
        if not (isinstance(key, I.Sym) and key.t.eq(kk.t)):
            raise I.Unsupported('label comprehension rewrites keys')
        val = it.eval(node.value, e2)
        if not I.is_intlike(val):
            raise I.Unsupported('label comprehension value is not an integer')
        return SymLabelsUpdate(kk, vv, cond, it.dom.lift(val).t)

    def _update(self, it, args, kw):
        (u,) = args
        it.note_mutation(self, 'update')
        if isinstance(u, dict) and not u:
            return None
        if not isinstance(u, SymLabelsUpdate):
            raise I.Unsupported('labels.update(%r)' % (u,))
        old = self.xf
        vv, cond, val = u.vv.t, u.cond, u.val

        def xf(t, old=old, vv=vv, cond=cond, val=val):
            cur = old(t)
            return z3.If(z3.substitute(cond, (vv, cur)), z3.substitute(val, (vv, cur)), cur)
        self.xf = xf
        self.updates.append(u)
        self.version += 1
        return None

    def iterate(self, it):
        raise I.Unsupported('iteration over the label table outside the comprehension idiom')

    def iterate_items(self, it):
        raise I.Unsupported('iteration over labels.items() outside the comprehension idiom')

    def snapshot(self):
        """a frozen copy of the current state (dict(labels), {**labels}, labels.copy())"""
        c = SymLabels.__new__(SymLabels)
        c.run, c.name = self.run, self.name + '_snapshot'
        c.val0, c.has0, c.xf = self.val0, self.has0, self.xf
        c.version, c.writes, c.updates = self.version, list(self.writes), list(self.updates)
        c.is_snapshot = True
        return c

    def havoc(self, tag):
        """make the state arbitrary (loop head of a Hoare step): earlier snapshots keep the old state"""
        n = next(self.run.counter)
        self.val0 = z3.Function('%s%s_%d' % (self.name, tag, n), z3.IntSort(), z3.IntSort())
        self.has0 = z3.Function('%s%shas_%d' % (self.name, tag, n), z3.IntSort(), z3.BoolSort())
        self.xf = lambda t: t
        self.writes, self.updates = [], []
        self.version += 1000


class SymConsts(I.SymDictBase):
    def __init__(self, run, name='K'):
        self.run = run
        self.val0 = z3.Function(name + '0', z3.IntSort(), z3.IntSort())
        self.has0 = z3.Function(name + '0has', z3.IntSort(), z3.BoolSort())
        # a constant can hold a register number; which constants do is not needed by the passes
        self.writes = []
        self.version = 0

    def _kid(self, k):
        if isinstance(k, str):
            return z3.IntVal(I.str_id(k))
        if isinstance(k, I.Sym) and k.sort == 'str':
            return k.t
        return None

    def contains(self, it, x):
        if isinstance(x, RegOperand):
            # `value in constants` for a register field: an int field is never a constant name
            return I.Sym('bool', z3.And(x.is_str, self.has0(x.sid)))
        kid = self._kid(x)
        if kid is None:
            if isinstance(x, (int, I.Sym)):
                return False
            raise I.Unsupported('constants membership of %r' % (x,))
        acc = I.Sym('bool', self.has0(kid))
        for wk, wv in self.writes:
            acc = it.or_(acc, I.Sym('bool', wk == kid))
        return acc

    def getitem(self, it, k):
        if not it.truth(self.contains(it, k)):
            I.py_raise('KeyError', k)
        if isinstance(k, RegOperand):
            # the constant's value: an int (constants are ints, resolve_constants contract)
            n = next(self.run.counter)
            return ConstValue(self.val0(k.sid))
        kid = self._kid(k)
        t = self.val0(kid)
        for wk, wv in self.writes:
            t = z3.If(wk == kid, wv, t)
        return I.Sym('int', t)

    def setitem(self, it, k, v):
        kid = self._kid(k)
        if kid is None or not I.is_intlike(v):
            raise I.Unsupported('constants store')
        self.writes.append((kid, it.dom.lift(v).t))
        self.version += 1
        it.note_mutation(self, 'setitem')

    def getattr(self, it, name):
        if name == 'items':
            return I.Builtin('constants.items', lambda it, a, k: I.SymItems(self))
        if name == 'update':
            return I.Builtin('constants.update', self._update)
        if name == 'get':
            def get(it, a, k):
                if it.truth(self.contains(it, a[0])):
                    return self.getitem(it, a[0])
                return a[1] if len(a) > 1 else k.get('default')
            return I.Builtin('constants.get', get)
        raise I.Unsupported('constants.%s' % name)

    def comprehension(self, it, node, env):
        # evaluated like the label idiom; any resulting update is a store into the constants (never legitimate in a pass)
        return SymLabels.comprehension(self, it, node, env)

    def _update(self, it, args, kw):
        (u,) = args
        it.note_mutation(self, 'update')
        if isinstance(u, dict) and not u:
            return None
        self.writes.append((z3.Int('any_constant'), z3.Int('rewritten_value')))
        self.version += 1
        return None

    def snapshot(self):
        c = SymConsts.__new__(SymConsts)
        c.run, c.val0, c.has0 = self.run, self.val0, self.has0
        c.writes, c.version = list(self.writes), self.version
        c.is_snapshot = True
        return c

    def havoc(self, tag):
        n = next(self.run.counter)
        self.val0 = z3.Function('K%s_%d' % (tag, n), z3.IntSort(), z3.IntSort())
        self.has0 = z3.Function('K%shas_%d' % (tag, n), z3.IntSort(), z3.BoolSort())
        self.writes = []
        self.version += 1000

    def iterate(self, it):
        raise I.Unsupported('iteration over constants')


class ConstValue(I.Sym):
    """integer value of a constant used as a register alias"""
    __slots__ = ()

    def __init__(self, t):
        super().__init__('int', t)


def mk_reg(run, name):
    """register field in any spelling/type.  valid <=> lookup_register accepts it; num its number (0..31 if valid);
    is_str: it is a string token (False: an int left by resolve_register_aliases); sid: string identity"""
    r = RegOperand(name, z3.Bool('valid_' + name), I.Sym('int', z3.Int('num_' + name)))
    r.is_str = z3.Bool('isstr_' + name)
    r.sid = z3.Int('sid_' + name)
    run.assume(z3.Implies(r.valid, z3.And(r.num.t >= 0, r.num.t <= 31)))
    return r


class Builder:
    """creates symbolic items by running the REAL constructors on symbolic arguments"""

    def __init__(self, run, it, env):
        self.run = run
        self.it = it
        self.env = env
        self.line = None
        self.expr_cls = I.ClassVal('SymExpr', [env.vars['Expr']], {'eval': I.Builtin('SymExpr.eval', self._expr_eval)})
        self.evals = []          # (expr, position, env, line, result|exception)
        self._cache = {}

    def mk_line(self, tag='line'):
        Line = self.env.vars['Line']
        ln = I.SObj(Line, {'file': I.Opaque(tag + '.file'), 'number': I.Opaque(tag + '.number'), 'contents': I.Opaque(tag + '.contents')})
        return ln

    def mk_expr(self, name):
        e = I.SObj(self.expr_cls, {'tag': name})
        return e

    def _env_version(self, env):
        v = []
        maps = env.maps if isinstance(env, I.ChainMapVal) else [env]
        for m in maps:
            v.append((id(m), getattr(m, 'version', 0)))
        return tuple(v)

    def _expr_eval(self, it, args, kw):
        # bound call: args = [position, env, line] (self is passed through the Builtin stored in class methods)
        raise I.Unsupported('SymExpr.eval must be called bound')

    def eval_expr(self, it, expr, position, env, line):
        pt = it.dom.lift(position).t if I.is_intlike(position) else None
        key = (id(expr), pt.get_id() if pt is not None else None, self._env_version(env))
        if key not in self._cache:
            n = len(self._cache)
            ok = z3.Bool('ev_ok_%s_%d' % (expr.fields.get('tag'), n))
            val = I.Sym('int', z3.Int('ev_%s_%d' % (expr.fields.get('tag'), n)))
            self._cache[key] = (ok, val)
        ok, val = self._cache[key]
        if not it.run.branch(ok):
            exc = it.instantiate(self.env.vars['AssemblerError'], ['expression cannot be evaluated', line], {})
            self.evals.append((expr, position, env, line, exc))
            raise I.PyRaise(exc)
        self.evals.append((expr, position, env, line, val))
        return val


def sym_expr_class(builder):
    """class whose bound `eval` defers to the builder (needs the instance)"""
    def getter(it, args, kw):
        raise I.Unsupported('unbound SymExpr.eval')
    return builder.expr_cls


def install_symexpr_dispatch(it, builder):
    """SymExpr instances: attribute `eval` returns a builtin bound to the instance"""
    orig_getattr = it.getattr

    def getattr_(obj, name, node=None):
        if isinstance(obj, I.SObj) and obj.cls is builder.expr_cls and name == 'eval':
            return I.Builtin('SymExpr.eval', lambda it2, a, k, obj=obj: builder.eval_expr(it2, obj, *a))
        if isinstance(obj, I.SObj) and name == 'eval' and obj.cls.name in ('Hi', 'Lo') and isinstance(obj.fields.get('expr'), I.SObj) \
                and obj.fields['expr'].cls is builder.expr_cls:
            # %hi / %lo around a symbolic leaf: the REAL eval runs; its result is recorded like a leaf evaluation, so later
            # obligations speak of the very value the pass computed (no second encoding of the split)
            bound = orig_getattr(obj, name, node)

            def recorded(it2, a, k, obj=obj, bound=bound):
                r = it2.call(bound, a, k)
                builder.evals.append((obj, a[0] if a else None, a[1] if len(a) > 1 else None, a[2] if len(a) > 2 else None, r))
                return r
            return I.Builtin('%s.eval' % obj.cls.name, recorded)
        return orig_getattr(obj, name, node)
    it.getattr = getattr_
