"""parse_item executed symbolically on token lists (asm.py parse_item / parse_immediate).  DESIGN 4 C13 (2), C01 (5).

The mnemonic is concrete (one run per mnemonic of the real tables), operand tokens are arbitrary strings.
  plumbing   parse_item([m, t1, .., tn]) builds an item whose args() are t1..tn in the documented operand order
             (the immediate being the expression parsed from the remaining tokens) - so the text front end hands
             the encoder the operands the source line named, in the order docs/instruction_reference.rst documents.
  offset     for every base+offset mnemonic the token shapes  m a off ( b )  and  m a b off  build equal items
             (S-type / c.sw: the documented register order of the two syntaxes).
Lexing (how a source line becomes tokens) is string code and is covered by the bounded tier only."""
import z3

from pyvc import interp as I
from pyvc.vc import Obligation
from contracts.encoders import Harness
from contracts import passes as P
from spec import rv32, rvc


def run_parse(h, ph, run, tokens):
    builder = P.Builder2(run, None, h.env)
    hooks = P.make_hooks(builder)
    parsed = {}

    def int_of_str(it_, s_, base):
        key = s_.t.get_id()
        if key not in parsed:
            parsed[key] = (z3.Bool('is_int_%s' % s_.t), I.Sym('int', z3.Int('int_%s' % s_.t)))
        ok, v = parsed[key]
        if not it_.run.branch(ok):
            I.py_raise('ValueError', 'invalid literal for int()')
        return v
    hooks['int_of_str'] = int_of_str
    it = I.Interp(run, h.base_it.mods, contracts=ph.contracts(builder), hooks=hooks)
    P.W.install_symexpr_dispatch(it, builder)
    builder.it = it
    line = builder.mk_line('src')
    lt = it.instantiate(h.env.vars['LineTokens'], [line, list(tokens)], {})
    item = it.call(h.env.vars['parse_item'], [lt], {})
    return item, it, line


def tok(name):
    return I.Sym('str', z3.Int(name))


def obligations_plumbing(ctx, h):
    ctx.under_contract('parse_item')
    ph = P.PassHarness(ctx, h, 'resolve_labels')
    for m in h.instructions():
        sp = rvc if m.startswith('c.') else rv32
        roles = list(sp.roles(m))
        n = len(roles)
        toks = [tok('t%d' % i) for i in range(n)]

        def body(run, m=m, toks=toks):
            for t in toks:
                run.assume(t.t != I.str_id('='))          # not a constant definition
            item, it, line = run_parse(h, ph, run, [m] + toks)
            args = it.call(it.getattr(item, 'args'), [], {}) if isinstance(item, I.SObj) and 'args' not in item.fields else None
            return item, args, line
        try:
            paths = I.explore(body, I.IntDom)
        except I.Unsupported as e:
            ctx.undecide('asm.parse_item[%s]' % m, str(e))
            continue
        rets = [p for p in paths if p.kind == 'return']
        ok = len(rets) >= 1
        why = ''
        pcrel_m = m in ('c.j', 'c.jal', 'c.beqz', 'c.bnez')
        for pi, p in enumerate(paths):
            pv = p.notes.get('pre_violations')
            if pv:
                ctx.add(Obligation('asm.parse_item[%s]/callee-preconditions-hold#%d' % (m, pi), list(p.pc), z3.BoolVal(False), 'INT', func='asm.parse_item',
                                   kind='pre', cover=False, meta={'replay': ('encoder_text', {'m': m}), 'key': 'parse:%s:callee-pre' % m,
                                                                  'what': 'parse_item(%s ...): %s' % (m, pv[0])}))
        for pi, p in enumerate(rets):
            item, args, line = p.value
            if args is None or len(args) != n or item.fields.get('name') != m:
                ok, why = False, 'item %r' % (item,)
                break
            for a, t, r in zip(args, toks, roles):
                is_imm = (r.startswith('imm') or r == 'csr') if sp is rv32 else (r == 'imm')
                if is_imm:
                    # the expression parsed from exactly this token.  Only a pc-relative operand (branch / jump target) that is
                    # not a number is a location: %offset(token); every other immediate is the token's own value, never wrapped
                    pcrel = r in ('immB', 'immJ') or pcrel_m
                    is_int = z3.Bool('is_int_%s' % t.t)
                    if isinstance(a, I.SObj) and a.cls.name == 'SymExpr':
                        if pcrel:
                            ctx.add(Obligation('asm.parse_item[%s]/a-name-as-branch-target-is-a-location#%d' % (m, pi), list(p.pc), is_int, 'INT',
                                               func='asm.parse_item', kind='post', cover=False,
                                               meta={'replay': ('encoder_text', {'m': m}), 'key': 'parse:%s:target' % m,
                                                     'what': 'parse_item(%s): a non-numeric jump / branch operand is not taken as %%offset(name)' % m}))
                    elif isinstance(a, I.SObj) and a.cls.name == 'Offset' and a.fields.get('reference') is t and pcrel:
                        ctx.add(Obligation('asm.parse_item[%s]/a-numeric-branch-offset-is-taken-literally#%d' % (m, pi), list(p.pc), z3.Not(is_int), 'INT',
                                           func='asm.parse_item', kind='post', cover=False,
                                           meta={'replay': ('encoder_text', {'m': m}), 'key': 'parse:%s:numeric-offset' % m,
                                                 'what': 'parse_item(%s): a numeric jump / branch operand is wrapped in %%offset (taken as an address)' % m}))
                    else:
                        ok, why = False, 'operand %s is %r, not the expression of the token written there' % (r, a)
                elif a is not t:
                    ok, why = False, 'operand %s is not the token written in that position' % r
            if not P.same_line_obj(item.fields.get('line'), line):
                ok, why = False, 'item does not carry its source line'
        ctx.add(Obligation('asm.parse_item[%s]/operands-in-documented-order' % m, [], z3.BoolVal(bool(ok)), 'finite', func='asm.parse_item',
                           kind='post', cover=False, meta={'replay': ('encoder_text', {'m': m}), 'what': 'parse_item(%s ...): %s' % (m, why),
                                                           'key': 'parse:%s:operand-order' % m}))


def obligations_offset_syntax(ctx, h):
    ph = P.PassHarness(ctx, h, 'resolve_labels')
    base = sorted(h.env.vars['BASE_OFFSET_INSTRUCTIONS'])
    for m in base:
        a, b, off = tok('a'), tok('b'), tok('off')
        results = {}
        for shape, tokens in (('paren', [m, a, off, '(', b, ')']), ('plain', None)):
            def body(run, tokens=tokens, shape=shape):
                for t in (a, b, off):
                    run.assume(t.t != I.str_id('='))
                    run.assume(t.t != I.str_id('('))
                tk = tokens
                if tk is None:
                    # documented plain order: stores name the base register first (sw rs1, rs2, imm <-> sw rs2, imm(rs1))
                    fmt = rv32.TABLE[m][0] if m in rv32.TABLE else None
                    store = (fmt == 'S') or m == 'c.sw'
                    tk = [m, b, a, off] if store else [m, a, b, off]
                item, it, line = run_parse(h, ph, run, tk)
                return item
            try:
                results[shape] = [p for p in I.explore(body, I.IntDom)]
            except I.Unsupported as e:
                ctx.undecide('asm.parse_item[%s]/offset-syntax' % m, str(e))
                results = None
                break
        if results is None:
            continue
        ok = True
        why = ''
        for shape in ('paren', 'plain'):
            for pi, p in enumerate(results[shape]):
                pv = p.notes.get('pre_violations')
                if pv:
                    ctx.add(Obligation('asm.parse_item[%s]/%s/callee-preconditions-hold#%d' % (m, shape, pi), list(p.pc), z3.BoolVal(False), 'INT',
                                       func='asm.parse_item', kind='pre', cover=False,
                                       meta={'replay': ('encoder_text', {'m': m}), 'key': 'parse:%s:callee-pre' % m,
                                             'what': 'parse_item(%s, %s form): %s' % (m, 'imm(reg)' if shape == 'paren' else 'reg, imm', pv[0])}))
        rp, rl = [p for p in results['paren'] if p.kind == 'return'], [p for p in results['plain'] if p.kind == 'return']
        if len(rp) != 1 or len(rl) != 1 or len(results['paren']) != 1 or len(results['plain']) != 1:
            ok, why = False, 'the two token shapes do not each parse on a single path'
        else:
            x, y = rp[0].value, rl[0].value
            if x.cls is not y.cls or list(x.fields) != list(y.fields):
                ok, why = False, 'different item classes / fields'
            else:
                for k in x.fields:
                    vx, vy = x.fields[k], y.fields[k]
                    if k == 'line':
                        continue
                    same = vx is vy or (isinstance(vx, I.Sym) and isinstance(vy, I.Sym) and vx.t.eq(vy.t)) or \
                        (isinstance(vx, I.SObj) and isinstance(vy, I.SObj) and vx.cls.name == 'SymExpr' and vy.cls.name == 'SymExpr'
                         and vx.fields.get('tag') == vy.fields.get('tag')) or (not isinstance(vx, (I.Sym, I.SObj)) and vx == vy)
                    if not same:
                        ok, why = False, 'field %s differs: %r vs %r' % (k, vx, vy)
        ctx.add(Obligation('asm.parse_item[%s]/imm(reg)-equals-reg,imm' % m, [], z3.BoolVal(bool(ok)), 'finite', func='asm.parse_item',
                           kind='post', cover=False, meta={'replay': ('spelling', {'m': m}), 'what': '%s: %s' % (m, why),
                                                           'key': 'parse:%s:offset-syntax' % m}))


def replay_encoder_text(ctx, d, model):
    class C:
        seed = 0
        tier = 'quick'

        def __init__(self):
            self.found = []
            self.bounded = {'parts': {}, 'evaluations': 0}

        def b_rule(self, t):
            pass

        def b_eval(self, *a, **k):
            pass

        def trust(self, t):
            pass

        def module(self, name):
            return ctx.module(name)

        def violation(self, obligation, key, what, replay, confirmed=True, source='bounded'):
            self.found.append((key, what, replay))
    from bounded import tasks
    c = C()
    tasks.encoder_text_task(c, 'all', {'accept', 'decode', 'size'}, ('x',), only=d.get('m'))
    if not c.found:
        return None
    key, what, rep = c.found[0]
    return {'confirmed': True, 'key': key, 'what': what, 'input': rep}


def replay_spelling(ctx, d, model):
    from bounded import spelling
    return spelling.replay(ctx, d, model)


from pyvc import replays as _R  # noqa: E402
_R.register('encoder_text', 'contracts.parse:replay_encoder_text')
_R.register('spelling', 'contracts.parse:replay_spelling')


def task_parse(ctx):
    h = Harness(ctx)
    obligations_plumbing(ctx, h)
    obligations_offset_syntax(ctx, h)
