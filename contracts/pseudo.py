"""C05: effect lemmas for transform_pseudo_instructions (asm.py), generated from the step paths of
contracts/passes.py.  For every pseudo-instruction and every path through its real expansion branch, the
instruction items the branch CONSTRUCTS are turned into (mnemonic, operands) via their real args() methods,
run through the reference step semantics (spec/step.py) on an ARBITRARY register file and pc, and compared with
the documented effect (spec/pseudo.py).  Links of the chain that are other functions' contracts:
   - resolve_immediates bakes imm.eval(own offset) (own offset - 4 for the jalr half of a far call/tail)
   - Offset.eval = label - position ; Hi/Lo.eval = relocate_hi/lo of the inner value  (contracts/exprs.py, C07)
   - the encoder / decoder round trip of C01/C02 (the machine word decodes to these operands)
li is handled over unbounded integers (its operand is any integer): value left == operand mod 2**32.
"""
import z3

from pyvc import interp as I
from pyvc.vc import Obligation
from spec import pseudo as SP, rv32, step as S


class Conv:
    def __init__(self, h, st):
        self.h = h
        self.st = st
        self.regvars = {}
        self.hyps = []
        self.T = z3.BitVec('target', 32)
        self.pc = z3.BitVec('pc', 32)
        self.n_hilo = 0
        self.hilo = {}

    def reg(self, v):
        if isinstance(v, str):
            n = self.h.env.vars['REGISTERS'].get(v)
            if n is None:
                raise I.Unsupported('register literal %r' % v)
            return z3.BitVecVal(n, 5)
        if isinstance(v, int):
            return z3.BitVecVal(v, 5)
        if isinstance(v, I.Sym) and v.sort == 'str':
            key = str(v.t)
            if key not in self.regvars:
                self.regvars[key] = z3.BitVec('r_' + key, 5)
            return self.regvars[key]
        raise I.Unsupported('register operand %r' % (v,))

    def imm(self, e, at, flag):
        """32-bit value baked for expression object e of an instruction at byte offset `at` inside the expansion"""
        pos = self.pc + z3.BitVecVal(at, 32)
        if flag is True:
            pos = pos - 4
        if isinstance(e, int):
            return z3.BitVecVal(e, 32)
        if not isinstance(e, I.SObj):
            raise I.Unsupported('immediate %r' % (e,))
        c = e.cls.name
        if c == 'Arithmetic':
            s = e.fields.get('expr')
            if isinstance(s, str):
                try:
                    return z3.BitVecVal(int(s, 0), 32)
                except ValueError:
                    pass
            raise I.Unsupported('arithmetic immediate %r' % (s,))
        if c == 'Offset':
            return self.T - pos
        if c in ('Hi', 'Lo'):
            inner = e.fields['expr']
            iv = self.imm(inner, at, flag) if not (isinstance(inner, I.SObj) and inner.cls.name == 'SymExpr') else None
            if iv is None:
                raise I.Unsupported('hi/lo of an opaque expression')
            key = str(z3.simplify(iv))
            if key not in self.hilo:
                n = len(self.hilo)
                hi, lo = z3.BitVec('hi%d' % n, 32), z3.BitVec('lo%d' % n, 32)
                # C07 (proved on the real relocate_hi / relocate_lo): (hi << 12) + lo == value  (mod 2**32),
                # lo is a sign-extended 12-bit value, hi a sign-extended 20-bit value
                self.hyps += [(hi << 12) + lo == iv, z3.SignExt(20, z3.Extract(11, 0, lo)) == lo,
                              z3.SignExt(12, z3.Extract(19, 0, hi)) == hi]
                self.hilo[key] = (hi, lo)
            hi, lo = self.hilo[key]
            return hi if c == 'Hi' else lo
        raise I.Unsupported('immediate class %s' % c)


def to_step_insns(h, st, conv):
    """constructed items -> [(mnemonic, operand vectors)], operands in the order of the item's real args()"""
    out = []
    at = 0
    it = st.it
    for o in st.appended:
        name = o.fields.get('name')
        if not isinstance(name, str) or name not in rv32.TABLE:
            raise I.Unsupported('constructed item %r' % (o,))
        args = it.call(it.getattr(o, 'args'), [], {})
        roles = rv32.roles(name)
        if len(args) != len(roles):
            raise I.Unsupported('%s: args() has %d entries, %d operands documented' % (name, len(args), len(roles)))
        flag = o.fields.get('is_auipc_jump', False)
        ops = []
        for r, a in zip(roles, args):
            if r in rv32.REG_ROLES:
                ops.append(conv.reg(a))
            elif r in ('succ', 'pred'):
                ops.append(a)
            elif r == 'immU':
                # lui/auipc take the 20-bit field: the value's low 20 bits (u_type contract)
                ops.append(conv.imm(a, at, flag) & z3.BitVecVal(0xfffff, 32))
            else:
                ops.append(conv.imm(a, at, flag))
        out.append((name, ops))
        sz = it.call(it.getattr(o, 'size'), [], {})
        at += sz if isinstance(sz, int) else 4
    return out, at


def effect_obligations(ctx, ph, name, tag, paths):
    fn = 'asm.transform_pseudo_instructions'
    h = ph.h
    regs0 = z3.Array('regfile', z3.BitVecSort(5), z3.BitVecSort(32))
    for i, p in enumerate(paths):
        if p.kind == 'raise':
            continue
        st = p.value
        rp = ('pseudo_effect', {'name': name})
        if name == 'li':
            li_obligation(ctx, ph, st, p, i, tag)
            continue
        conv = Conv(h, st)
        try:
            insns, total = to_step_insns(h, st, conv)
        except I.Unsupported as e:
            ctx.undecide('%s/%s/effect#%d' % (fn, tag, i), str(e))
            continue
        toks = st.info.get('toks', [])
        nreg = SP.ARITY[name]
        ops = [conv.reg(t) for t in toks[:nreg]]
        regs, pc = regs0, conv.pc
        live = z3.BoolVal(True)         # straight-line until the last instruction
        ok = True
        for k, (m, o) in enumerate(insns):
            try:
                regs, npc, mem = S.step(regs, pc, m, o)
            except KeyError:
                ok = False
                break
            if k < len(insns) - 1:
                # an expansion is straight-line: every instruction but the last falls through
                live = z3.And(live, npc == pc + 4)
            pc = npc
        if not ok:
            ctx.add(Obligation('%s/%s/effect#%d' % (fn, tag, i), [], z3.BoolVal(False), 'BV', func=fn, kind='post',
                               cover=False, meta={'replay': rp, 'props': ['C05']}))
            continue
        want_regs, want_pc = SP.effect(name, regs0, conv.pc, ops, conv.T, size=total)
        # registers: equal everywhere except documented scratch registers
        scratch = SP.SCRATCH.get(name, ())
        idx = z3.BitVec('any_reg', 5)
        same = z3.Or(z3.Select(regs, idx) == z3.Select(want_regs, idx), idx == 0, *[idx == s for s in scratch])
        goal = z3.And(live, same, pc == want_pc)
        hyps = list(conv.hyps)
        if name in SP.HAS_TARGET:
            hyps.append(z3.Extract(0, 0, conv.T) == 0)      # code labels are even addresses
        ctx.add(Obligation('%s/%s/effect#%d' % (fn, tag, i), hyps, goal, 'BV', func=fn, kind='post', cover=False,
                           meta={'replay': rp, 'props': ['C05'] + (['C03'] if name in SP.HAS_TARGET else []),
                                 'what': 'the expansion of %s does not have its documented effect' % name}))


def li_obligation(ctx, ph, st, p, i, tag):
    """li rd, e : the items built are (lui rd, %hi(e) ; addi rd, rd, %lo(e)) or (addi rd, x0, %lo(e)) and the value
    left is e mod 2**32, for EVERY integer value of e (premise: e has the same value at both positions)"""
    fn = 'asm.transform_pseudo_instructions'
    h = ph.h
    it = st.it
    rp = ('pseudo_effect', {'name': 'li'})
    toks = st.info.get('toks', [])
    rd_tok = toks[0] if toks else None
    items = st.appended
    v = None
    for (e, pos, env, line, res) in st.builder.evals:
        if isinstance(res, I.Sym):
            v = res
            break
    shape = None
    try:
        if v is not None and len(items) == 1:
            a = items[0]
            if (a.fields.get('name') == 'addi' and a.fields.get('rd') is rd_tok and a.fields.get('rs1') in ('x0', 'zero', '0', 0)
                    and a.fields['imm'].cls.name == 'Lo'):
                shape = 1
        elif v is not None and len(items) == 2:
            a, b = items
            if (a.fields.get('name') == 'lui' and b.fields.get('name') == 'addi' and a.fields.get('rd') is rd_tok
                    and b.fields.get('rd') is rd_tok and b.fields.get('rs1') is rd_tok
                    and a.fields['imm'].cls.name == 'Hi' and b.fields['imm'].cls.name == 'Lo'
                    and a.fields['imm'].fields['expr'] is b.fields['imm'].fields['expr']):
                shape = 2
    except (KeyError, AttributeError):
        shape = None
    if shape is None:
        ctx.add(Obligation('%s/%s/li-shape#%d' % (fn, tag, i), list(p.pc), z3.BoolVal(False), 'INT', func=fn, kind='post',
                           cover=False, meta={'replay': rp, 'props': ['C05', 'C08'],
                                              'what': 'li does not expand to lui/addi or addi with %hi/%lo of its operand'}))
        return
    vt = v.t

    def body(run):
        for c in p.pc:
            run.assume(c)
        it2 = I.Interp(run, h.base_it.mods)
        vv = I.Sym('int', vt)
        hi = it2.call(h.env.vars['relocate_hi'], [vv], {})
        lo = it2.call(h.env.vars['relocate_lo'], [vv], {})
        return (hi, lo)
    for k, q in enumerate(I.explore(body, I.IntDom)):
        if q.kind != 'return':
            ctx.add(Obligation('%s/%s/li-relocate-raises#%d.%d' % (fn, tag, i, k), list(q.pc), z3.BoolVal(False), 'INT', func=fn,
                               kind='post', cover=False, meta={'replay': rp, 'props': ['C05']}))
            continue
        hi, lo = q.value
        if shape == 1:
            value = lo.t % (2 ** 32)
        else:
            value = (((hi.t % (2 ** 20)) * 4096) % (2 ** 32) + lo.t) % (2 ** 32)
        ctx.add(Obligation('%s/%s/li-leaves-its-value#%d.%d' % (fn, tag, i, k), list(q.pc), value == vt % (2 ** 32), 'INT',
                           func=fn, kind='post', meta={'replay': rp, 'props': ['C05'],
                                                       'what': 'li does not leave its operand value (mod 2**32) in rd'}))


def constructed_item_obligations(ctx, ph, name, tag, paths):
    """class invariants the later passes rely on: names of constructed items are mnemonics of their class,
    is_auipc_jump only on a jalr that directly follows its auipc"""
    fn = 'asm.transform_pseudo_instructions'
    names = ph.names
    for i, p in enumerate(paths):
        if p.kind == 'raise':
            continue
        st = p.value
        ok = True
        why = ''
        for k, o in enumerate(st.appended):
            if o.cls.name == 'PseudoInstruction':
                ok, why = False, 'a pseudo-instruction survives the pass'
            if o is st.item:
                continue
            nm = o.fields.get('name')
            if o.cls.name in names and nm not in names[o.cls.name]:
                ok, why = False, '%s built with name %r' % (o.cls.name, nm)
            flag = o.fields.get('is_auipc_jump', False)
            if flag is not False:
                prev = st.appended[k - 1] if k > 0 else None
                if not (flag is True and nm == 'jalr' and prev is not None and prev.fields.get('name') == 'auipc'
                        and prev.cls.name == 'UTypeInstruction'):
                    ok, why = False, 'is_auipc_jump set on an item that does not follow its auipc'
        ctx.add(Obligation('%s/%s/constructed-items-satisfy-class-invariants#%d' % (fn, tag, i), [], z3.BoolVal(ok), 'finite',
                           func=fn, kind='invariant', cover=False, meta={'what': why, 'key': 'pseudo:%s:class-invariant' % name}))
