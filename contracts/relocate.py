"""Contracts for sign_extend, relocate_hi, relocate_lo, Hi.eval, Lo.eval (asm.py:112-124, 1225-1262) and the
acceptance of their results by the consuming encoders.  DESIGN 4 C07.

All obligations are over UNBOUNDED mathematical integers (INT back end): no 2**32 enumeration, no sampling.
Postconditions are the property's own sentences:
    -2**19 <= %hi(v) < 2**19          (fits the 20-bit upper-immediate field)
    -2**11 <= %lo(v) < 2**11          (fits the signed 12-bit field)
    ((%hi(v) << 12) + %lo(v) - v) mod 2**32 == 0
"""
import z3

from pyvc import interp as I
from pyvc.vc import Obligation
from contracts.encoders import Harness, RegOperand


def sext_spec(x, b):
    return ((x + 2 ** (b - 1)) % (2 ** b)) - 2 ** (b - 1)


def _explore_fn(h, name, mk_args):
    holder = {}

    def body(run):
        args = mk_args(run)
        holder['args'] = args
        it = I.Interp(run, h.base_it.mods)
        return it.call(h.env.vars[name], args, {})
    return I.explore(body, I.IntDom), holder


def obligations_sign_extend(ctx, h, widths):
    ctx.under_contract('sign_extend')
    for b in widths:
        paths, hold = _explore_fn(h, 'sign_extend', lambda run, b=b: [run.dom.var('x'), b])
        x = z3.Int('x')
        for i, p in enumerate(paths):
            goal = (p.value.t == sext_spec(x, b)) if p.kind == 'return' and isinstance(p.value, I.Sym) else z3.BoolVal(False)
            ctx.add(Obligation('asm.sign_extend/bits=%d#%d' % (b, i), list(p.pc), goal, 'INT', func='asm.sign_extend',
                               kind='post', cover=False, meta={'replay': ('call_int', {'f': 'sign_extend', 'args': ['x', b],
                                                                                        'spec': 'sext', 'bits': b})}))


def obligations_relocate(ctx, h):
    ctx.under_contract('relocate_hi')
    ctx.under_contract('relocate_lo')
    ctx.under_contract('sign_extend')
    ctx.inlined.add('asm.sign_extend (inlined into relocate_hi / relocate_lo at the two constant widths 20 and 12)')
    v = z3.Int('v')
    ph, _ = _explore_fn(h, 'relocate_hi', lambda run: [run.dom.var('v')])
    pl, _ = _explore_fn(h, 'relocate_lo', lambda run: [run.dom.var('v')])
    rp = ('relocate', {})
    for i, p in enumerate(ph):
        ok = p.kind == 'return' and isinstance(p.value, I.Sym)
        goal = z3.And(p.value.t >= -2 ** 19, p.value.t < 2 ** 19) if ok else z3.BoolVal(False)
        ctx.add(Obligation('asm.relocate_hi/fits-20-bit#%d' % i, list(p.pc), goal, 'INT', func='asm.relocate_hi',
                           kind='post', meta={'replay': rp}))
    for i, p in enumerate(pl):
        ok = p.kind == 'return' and isinstance(p.value, I.Sym)
        goal = z3.And(p.value.t >= -2 ** 11, p.value.t < 2 ** 11) if ok else z3.BoolVal(False)
        ctx.add(Obligation('asm.relocate_lo/fits-signed-12-bit#%d' % i, list(p.pc), goal, 'INT', func='asm.relocate_lo',
                           kind='post', meta={'replay': rp}))
    for i, a in enumerate(ph):
        for j, b in enumerate(pl):
            if a.kind != 'return' or b.kind != 'return':
                continue
            goal = ((a.value.t * 4096 + b.value.t - v) % (2 ** 32)) == 0
            ctx.add(Obligation('asm.relocate_hi+lo/rebuilds-v-mod-2^32#%d.%d' % (i, j), list(a.pc) + list(b.pc), goal, 'INT',
                               func='asm.relocate_hi', kind='lemma', meta={'replay': rp}))
            # the consuming pairs: lui/auipc take the 20-bit field (hi mod 2**20), the second instruction adds sext(lo)
            pair = ((((a.value.t % (2 ** 20)) * 4096) % (2 ** 32) + b.value.t - v) % (2 ** 32)) == 0
            ctx.add(Obligation('lemma/lui+addi|lw|sw,auipc+jalr|addi-address-v#%d.%d' % (i, j), list(a.pc) + list(b.pc), pair,
                               'INT', func='asm.relocate_hi', kind='lemma', cover=False, meta={'replay': rp}))
    if ph and ph[0].kind == 'return':
        ctx.add(Obligation('asm.relocate_hi/canary', list(ph[0].pc), z3.BoolVal(False), 'INT', func='asm.relocate_hi',
                           kind='canary', cover=False, expect='invalid'))


def obligations_hi_lo_eval(ctx, h):
    """Hi.eval / Lo.eval return relocate_hi / relocate_lo of the inner expression's value (inner eval: contract)"""
    ctx.under_contract('Hi.eval')
    ctx.under_contract('Lo.eval')
    Hi, Lo = h.env.vars['Hi'], h.env.vars['Lo']

    def run_eval(cls):
        def body(run):
            # the label table changes between evaluations of the same expression object (layout passes shrink labels):
            # the inner expression returns an arbitrary EARLIER value first, then v; the result must be that of v
            calls = {'n': 0}

            def inner_eval(it, a, k):
                calls['n'] += 1
                return run.dom.var('v_earlier') if calls['n'] == 1 else run.dom.var('v')
            inner = I.SObj(I.ClassVal('InnerExpr', [h.env.vars['Expr']], {'eval': I.Builtin('inner.eval', inner_eval)}), {})
            it = I.Interp(run, h.base_it.mods)
            obj = it.instantiate(cls, [inner], {})
            pos = run.dom.var('position')
            it.call(it.getattr(obj, 'eval'), [pos, I.Opaque('env'), I.Opaque('line')], {})
            if calls['n'] < 2:
                calls['n'] = 1
            r = it.call(it.getattr(obj, 'eval'), [pos, I.Opaque('env'), I.Opaque('line')], {})
            run.notes['inner_calls'] = calls['n']
            return r
        return I.explore(body, I.IntDom)
    ph, pl = run_eval(Hi), run_eval(Lo)
    v, v0 = z3.Int('v'), z3.Int('v_earlier')
    rp = ('hilo_eval', {})
    # the property speaks of every 32-bit value, in its negative and its unsigned spelling: v in [-2**31, 2**32)
    word = [v >= -2 ** 31, v < 2 ** 32, v0 >= -2 ** 31, v0 < 2 ** 32]
    for i, a in enumerate(ph):
        for j, b in enumerate(pl):
            ok = a.kind == 'return' and b.kind == 'return' and isinstance(a.value, I.Sym) and isinstance(b.value, I.Sym) \
                and a.notes.get('inner_calls') == 2 and b.notes.get('inner_calls') == 2      # the inner value is re-read on every call
            if ok:
                goal = z3.And(a.value.t >= -2 ** 19, a.value.t < 2 ** 19, b.value.t >= -2 ** 11, b.value.t < 2 ** 11,
                              ((a.value.t * 4096 + b.value.t - v) % (2 ** 32)) == 0)
            else:
                goal = z3.BoolVal(False)
            ctx.add(Obligation('asm.Hi.eval+Lo.eval/split-of-inner-value#%d.%d' % (i, j), word + list(a.pc) + list(b.pc), goal, 'INT',
                               func='asm.Hi.eval', kind='post', cover=(ok is True), meta={'replay': rp}))
    # outside the 32-bit range the property demands nothing of the split; a refusal must still be the assembler's own error
    for nm, paths in (('Hi', ph), ('Lo', pl)):
        for i, a in enumerate(paths):
            if a.kind == 'raise':
                ctx.add(Obligation('asm.%s.eval/refusal-is-an-AssemblerError#%d' % (nm, i), list(a.pc), z3.BoolVal(a.exc_name == 'AssemblerError'),
                                   'INT', func='asm.%s.eval' % nm, kind='raises', cover=False, meta={'replay': rp}))


def obligations_consumers_accept(ctx, h):
    """u_type accepts every relocate_hi result; i_type / s_type accept every relocate_lo result; ij_type when even"""
    cases = [('lui', 'relocate_hi', 1), ('auipc', 'relocate_hi', 1), ('addi', 'relocate_lo', 2), ('lw', 'relocate_lo', 2),
             ('sw', 'relocate_lo', 2), ('jalr', 'relocate_lo', 2)]
    for m, rel, pos in cases:
        fn = h.encoder_func_name(m)
        ctx.under_contract(fn)

        def body(run, m=m, rel=rel, pos=pos):
            it = h.interp(run)
            v = run.dom.var('v')
            imm = it.call(h.env.vars[rel], [v], {})
            regs = [RegOperand('r%d' % k, z3.BoolVal(True), I.Sym('int', z3.Int('num_r%d' % k))) for k in range(pos)]
            for r in regs:
                run.assume(z3.And(r.num.t >= 0, r.num.t <= 31))
            if m == 'jalr':
                run.assume(imm.t % 2 == 0)
            return h.call_encoder(it, m, regs + [imm])
        paths = I.explore(body, I.IntDom)
        for i, p in enumerate(paths):
            if p.kind == 'raise':
                ctx.add(Obligation('asm.%s[%s]/accepts-every-%s-result#%d' % (fn, m, rel, i), list(p.pc), z3.BoolVal(False),
                                   'INT', func='asm.' + fn, kind='lemma', cover=False,
                                   meta={'replay': ('relocate_consumer', {'m': m, 'rel': rel, 'pos': pos})}))
        rets = [p for p in paths if p.kind == 'return']
        ctx.add(Obligation('asm.%s[%s]/accepts-every-%s-result/some-path-returns' % (fn, m, rel), [], z3.BoolVal(bool(rets)),
                           'finite', func='asm.' + fn, kind='lemma', cover=False))


# ---- replays ---------------------------------------------------------------

def replay_relocate(ctx, d, model):
    from pyvc.real import real
    v = int(model.get('v', 0))
    r = real()
    hi = r.call('relocate_hi', [v])
    lo = r.call('relocate_lo', [v])
    bad = not ('ok' in hi and 'ok' in lo and -2 ** 19 <= hi['ok'] < 2 ** 19 and -2 ** 11 <= lo['ok'] < 2 ** 11
               and ((hi['ok'] << 12) + lo['ok'] - v) % 2 ** 32 == 0)
    return {'confirmed': bad, 'key': 'relocate:v=%d' % v, 'what': '%%hi/%%lo of %d = %r / %r do not fit or do not rebuild the value' % (v, hi, lo),
            'input': {'v': v}, 'observed': {'hi': hi, 'lo': lo}}


def replay_hilo_eval(ctx, d, model):
    from pyvc.real import real
    v = int(model.get('v', 0))
    v0 = int(model.get('v_earlier', v + 4))
    r = real()
    out = {}
    for nm in ('Hi', 'Lo'):
        out[nm] = r.req({'op': 'eval_twice', 'obj': {'__expr__': "%s(Offset('L'))" % nm}, 'position': 0, 'env1': {'L': v0}, 'env2': {'L': v}})
    hi, lo = out['Hi'].get('ok', [None, None])[1], out['Lo'].get('ok', [None, None])[1]
    bad = not (isinstance(hi, int) and isinstance(lo, int) and -2 ** 19 <= hi < 2 ** 19 and -2 ** 11 <= lo < 2 ** 11
               and ((hi << 12) + lo - v) % 2 ** 32 == 0)
    return {'confirmed': bad, 'key': 'hilo-eval:v=%d' % v,
            'what': '%%hi/%%lo of an expression worth %d (after it was worth %d at the same position) evaluate to %r / %r: they do not rebuild the value' % (v, v0, hi, lo),
            'input': {'v': v, 'earlier_value': v0}, 'observed': out}


def replay_call_int(ctx, d, model):
    from pyvc.real import real
    args = [int(model.get(a, 0)) if isinstance(a, str) else a for a in d['args']]
    obs = real().call(d['f'], args)
    if d['spec'] == 'sext':
        b = d['bits']
        want = ((args[0] + 2 ** (b - 1)) % 2 ** b) - 2 ** (b - 1)
    bad = obs.get('ok') != want
    return {'confirmed': bad, 'key': '%s:%r' % (d['f'], args), 'what': '%s%r = %r, expected %r' % (d['f'], tuple(args), obs, want),
            'input': {'f': d['f'], 'args': args}, 'observed': obs}


def replay_consumer(ctx, d, model):
    from pyvc.real import real
    v = int(model.get('v', 0))
    r = real()
    imm = r.call(d['rel'], [v])
    if 'ok' not in imm:
        return {'confirmed': True, 'key': '%s:raises' % d['rel'], 'what': '%s(%d) raised %r' % (d['rel'], v, imm), 'input': {'v': v}}
    if d['m'] == 'jalr' and imm['ok'] % 2:
        return {'confirmed': False, 'key': 'jalr-odd', 'what': 'odd lo for jalr is outside the lemma'}
    obs = r.encode(d['m'], [5] * d['pos'] + [imm['ok']])
    return {'confirmed': 'ok' not in obs, 'key': '%s:refuses-%s' % (d['m'], d['rel']),
            'what': '%s refuses %s(%d) = %d: %r' % (d['m'], d['rel'], v, imm['ok'], obs), 'input': {'v': v, 'imm': imm['ok']},
            'observed': obs}


from pyvc import replays as _R   # noqa: E402
_R.register('relocate', 'contracts.relocate:replay_relocate')
_R.register('call_int', 'contracts.relocate:replay_call_int')
_R.register('hilo_eval', 'contracts.relocate:replay_hilo_eval')
_R.register('relocate_consumer', 'contracts.relocate:replay_consumer')


def task_relocate(ctx):
    h = Harness(ctx)
    obligations_sign_extend(ctx, h, list(range(1, 33)))
    obligations_relocate(ctx, h)
    obligations_hi_lo_eval(ctx, h)
    obligations_consumers_accept(ctx, h)
