"""Obligations on the compression rules of transform_compressible (asm.py criteria table + construction chain),
generated from the step paths of contracts/passes.py.  DESIGN 4 C04 (1)-(3), C12 (1)-(3), C20 (1), C11 (4).

For an arbitrary 32-bit instruction item (class and mnemonic concrete, register fields arbitrary spellings,
immediate an arbitrary expression whose decision-time value is `ev`):

  C04/expand    the path appends a compressed item  =>  the RVC expansion (spec/rvc.py) of (c.name, operands the
                constructed item hands to its encoder) is the original instruction, operand by operand
                (c.mv built from `addi rd, rs, 0`: same register effect under spec/step.py)
  C04/accept    ... and the c.* operands are legal for the encoder when the final immediate equals the
                decision-time value (literal operands)                                  [also C12 (3)]
  C20/eligible  the path keeps the 32-bit item  =>  no legal non-hint c.X expands to this instruction
  C12/no-new-exception   a path that raises is infeasible for an item the uncompressed pipeline accepts
                (all register fields valid, immediate evaluates)
  C11/operand-type       an expression constructed from a register field evaluates, to the register's number,
                whenever the field is a valid register spelling
"""
import z3

from pyvc import interp as I
from pyvc.vc import Obligation
from contracts.encoders import RegOperand
from spec import rv32, rvc, step as S
from spec.ops import INT

ROLE_FIELD = {'rd': 'rd', 'rs1': 'rs1', 'rs2': 'rs2', 'shamt': 'rs2', 'immI': 'imm', 'immIJ': 'imm', 'immS': 'imm',
              'immB': 'imm', 'immU': 'imm', 'immJ': 'imm'}


class Operand:
    def __init__(self, kind, term, obj=None, ok=None):
        self.kind, self.term, self.obj, self.ok = kind, term, obj, ok


def decision_value(st, expr):
    """the value `expr` had when the criteria were evaluated (first recorded eval), else a fresh name"""
    for (e, pos, env, line, res) in st.builder.evals:
        if (e is expr or getattr(e, 'copied_from', e) is getattr(expr, 'copied_from', expr)) and isinstance(res, I.Sym):
            return res.t
    return z3.Int('ev_unevaluated_%d' % id(expr))


def operand_of(st, v, hyps):
    """meaning of a field handed to an encoder: register number / immediate value"""
    if isinstance(v, RegOperand):
        return Operand('reg', v.num.t, v)
    if isinstance(v, I.SObj) and v.cls.name == 'SymExpr':
        return Operand('imm', decision_value(st, v), v)
    if isinstance(v, I.SObj) and v.cls.name == 'Arithmetic':
        e = v.fields.get('expr')
        if isinstance(e, RegOperand):
            # value when it evaluates (Arithmetic.eval contract): the number the literal spells
            return Operand('imm', e.num.t, v, ok=z3.And(e.is_str, z3.Bool('islit_' + e.name)))
        if hasattr(e, 'value') and isinstance(getattr(e, 'value'), I.Sym):     # str(n)
            return Operand('imm', e.value.t, v)
        if isinstance(e, str):
            try:
                return Operand('imm', z3.IntVal(int(e, 0)), v)
            except ValueError:
                pass
        return Operand('imm', z3.Int('arith_%d' % id(v)), v, ok=z3.BoolVal(False))
    if isinstance(v, I.Sym) and v.sort in ('int', 'bool'):
        return Operand('imm', v.t, v)
    if isinstance(v, int):
        return Operand('imm', z3.IntVal(v), v)
    if isinstance(v, I.SObj) and v.cls.name in ('Lo', 'Hi') and isinstance(v.fields.get('expr'), I.SObj) \
            and v.fields['expr'].cls.name == 'SymExpr' and st.item.fields.get('is_auipc_jump') is not True:
        # %hi / %lo of an arbitrary inner expression: the value its REAL eval returned when the criteria looked at it
        # (recorded by world.install_symexpr_dispatch); never evaluated: any value
        return Operand('imm', decision_value(st, v), v)
    if isinstance(v, I.SObj) and v.cls.name in ('Lo', 'Hi', 'Offset', 'Position'):
        # a real label-dependent expression (the jalr half of a far call / tail): its final value is not the decision-time one
        return Operand('imm', z3.Int('final_value_of_%s_%d' % (v.cls.name, id(v))), v)
    raise I.Unsupported('operand %r' % (v,))


def base_operands(st, name):
    out = []
    for r in rv32.roles(name):
        f = ROLE_FIELD.get(r)
        if f is None or f not in st.item.fields:
            return None
        out.append(operand_of(st, st.item.fields[f], None))
    return out


def eq_operand(role, a, b):
    if role == 'immU':
        return rv32.canon(INT, 'immU', a) == rv32.canon(INT, 'immU', b)
    return a == b


def rule_obligations(ctx, ph, cls, name, tag, paths):
    fn = 'asm.transform_compressible'
    if name is None or name not in rv32.TABLE:
        return
    compressed_cls = ph.h.env.vars['CompressedInstruction']
    roles = rv32.roles(name)
    n_kept = n_comp = 0
    for i, p in enumerate(paths):
        st = p.notes.get('step') if p.kind == 'raise' else p.value
        if st is None:
            continue
        regs = st.info.get('regs', {})
        valid_all = [r.valid for r in regs.values()]
        ev_ok = [z3.Bool(str(c)) for c in []]
        if p.kind == 'raise':
            # C12 (1): infeasible when the uncompressed pipeline accepts the item
            exc = p.value
            hyp = list(p.pc) + valid_all
            if exc.cls.name == 'AssemblerError':
                # raised by the immediate's own evaluation: the uncompressed run raises the same error later
                continue
            ctx.add(Obligation('%s/%s/C12-no-new-exception#%d(%s)' % (fn, tag, i, exc.cls.name), hyp, z3.BoolVal(False), 'INT',
                               func=fn, kind='raises', cover=False,
                               meta={'replay': ('compress_rule', {'name': name, 'kind': 'exception', 'exc': exc.cls.name}),
                                     'props': ['C12', 'C15']}))
            continue
        if len(st.appended) != 1:
            ctx.add(Obligation('%s/%s/one-item-out#%d' % (fn, tag, i), list(p.pc), z3.BoolVal(False), 'INT', func=fn,
                               kind='post', cover=False, meta={'replay': ('compress_rule', {'name': name, 'kind': 'shape'})}))
            continue
        x = st.appended[0]
        base = base_operands(st, name)
        if x is st.item:
            n_kept += 1
            if base is None:
                continue
            # C20 (1): not compressed => not the expansion of a legal non-hint c.X   (literal operands: ev is final)
            for cm in rvc.T:
                tmpl_vars = {r: z3.Int('c_%s' % r) for r in rvc.roles(cm)}
                bm, bops = rvc.T[cm]['expand'](tmpl_vars)
                if bm != name:
                    continue
                cops = [tmpl_vars[r] for r in rvc.roles(cm)]
                conds = [rvc.legal(INT, cm, cops)] if cops else []
                for role, bo, orig in zip(roles, bops, base):
                    bo_t = z3.IntVal(bo) if isinstance(bo, int) else bo
                    if cm == 'c.lui' and role == 'immU':       # the c.lui operand is the signed 6-bit field
                        bo_t = rvc.canon(INT, cm, 'imm', bo_t)
                    conds.append(eq_operand(role, bo_t, orig.term))
                # ... of a LEGAL 32-bit instruction (an out-of-range lui is not "an instruction")
                conds.append(rv32.legal(INT, name, [o.term for o in base]))
                # the jalr half of a far call/tail is label-dependent by construction: not a literal operand
                flag = st.item.fields.get('is_auipc_jump')
                if isinstance(flag, I.Sym):
                    conds.append(z3.Not(flag.t))
                elif flag is True:
                    continue
                hyp = list(p.pc) + valid_all + conds
                ctx.add(Obligation('%s/%s/C20-eligible-for-%s-but-kept#%d' % (fn, tag, cm, i), hyp, z3.BoolVal(False), 'INT',
                                   func=fn, kind='post', cover=False,
                                   meta={'replay': ('compress_rule', {'name': name, 'kind': 'eligible', 'cm': cm}),
                                         'props': ['C20']}))
            continue
        # a compressed item was appended
        n_comp += 1
        ok_cls = isinstance(x, I.SObj) and x.cls.issub(compressed_cls)
        cm = x.fields.get('name') if isinstance(x, I.SObj) else None
        if not ok_cls or cm not in rvc.T:
            ctx.add(Obligation('%s/%s/replacement-is-a-known-compressed-item#%d' % (fn, tag, i), list(p.pc), z3.BoolVal(False),
                               'INT', func=fn, kind='post', cover=False,
                               meta={'replay': ('compress_rule', {'name': name, 'kind': 'shape'})}))
            continue
        it = st.it
        cargs = it.call(it.getattr(x, 'args'), [], {})
        crole = rvc.roles(cm)
        if len(cargs) != len(crole):
            ctx.add(Obligation('%s/%s/%s-operand-count#%d' % (fn, tag, cm, i), list(p.pc), z3.BoolVal(False), 'INT', func=fn,
                               kind='post', cover=False, meta={'replay': ('compress_rule', {'name': name, 'kind': 'shape', 'cm': cm})}))
            continue
        cops = [operand_of(st, a, None) for a in cargs]
        oks = [o.ok for o in cops if o.ok is not None]
        cdict = {r: o.term for r, o in zip(crole, cops)}
        bm, bops = rvc.T[cm]['expand'](cdict)
        rp = ('compress_rule', {'name': name, 'kind': 'meaning', 'cm': cm})
        hyp = list(p.pc) + valid_all
        # C11 (4) / C12 (2): constructed expressions evaluate when the original instruction was acceptable
        for o in cops:
            if o.ok is not None:
                ctx.add(Obligation('%s/%s/%s-constructed-operand-evaluates#%d' % (fn, tag, cm, i), hyp, o.ok, 'INT', func=fn,
                                   kind='post', cover=False,
                                   meta={'replay': ('compress_rule', {'name': name, 'kind': 'operand-type', 'cm': cm}),
                                         'props': ['C11', 'C12', 'C15']}))
        # C04 (1): same instruction after expansion
        if bm == name and base is not None:
            goal = z3.And(*[eq_operand(role, (z3.IntVal(bo) if isinstance(bo, int) else
                                              (rvc.canon(INT, cm, 'imm', bo) if (cm == 'c.lui' and role == 'immU') else bo)), orig.term)
                            for role, bo, orig in zip(roles, bops, base)]) if roles else z3.BoolVal(True)
            ctx.add(Obligation('%s/%s/C04-%s-expands-to-the-original#%d' % (fn, tag, cm, i), hyp + oks, goal, 'INT', func=fn,
                               kind='post', meta={'replay': rp, 'props': ['C04']}))
        else:
            # different base mnemonic: equal register effect under the reference step semantics
            goal = same_effect_goal(name, roles, base, bm, bops)
            ctx.add(Obligation('%s/%s/C04-%s-same-effect-as-the-original#%d' % (fn, tag, cm, i), hyp + oks, goal, 'INT',
                               func=fn, kind='post', meta={'replay': rp, 'props': ['C04']}))
        # C04 (2) / C12 (3): the c.* encoder accepts these operands (final value == decision-time value)
        legal = rvc.legal(INT, cm, [o.term for o in cops]) if cops else z3.BoolVal(True)
        ctx.add(Obligation('%s/%s/C12-%s-operands-accepted-by-encoder#%d' % (fn, tag, cm, i), hyp + oks, legal, 'INT', func=fn,
                           kind='post', cover=False, meta={'replay': ('compress_rule', {'name': name, 'kind': 'accept', 'cm': cm}),
                                                           'props': ['C04', 'C12', 'C06']}))
        # the second half of a far call/tail (is_auipc_jump) gets +4 added to its immediate by resolve_immediates
        # AFTER this decision: the decision-time value is not the final one, and a replacement without an `imm`
        # field loses the correction altogether.  Such an item must not be compressed.
        flag = st.item.fields.get('is_auipc_jump')
        if isinstance(flag, I.Sym) or flag is True:
            ctx.add(Obligation('%s/%s/%s-auipc-jump-half-is-not-compressed#%d' % (fn, tag, cm, i), hyp + ([flag.t] if isinstance(flag, I.Sym) else []), z3.BoolVal(False),
                               'INT', func=fn, kind='post', cover=False,
                               meta={'replay': ('compress_rule', {'name': name, 'kind': 'auipc-jump', 'cm': cm}),
                                     'props': ['C03', 'C04', 'C05']}))
    return n_kept, n_comp


def same_effect_goal(name, roles, base, bm, bops):
    """(name, base operands) and (bm, bops) are different base instructions: they must be an instance of a
    semantic-equivalence lemma proved over the reference step semantics (lemma_obligations)"""
    b = [z3.IntVal(x) if isinstance(x, int) else x for x in bops]
    if name == 'addi' and bm == 'add':
        # lemma addi-is-add: addi rd, rs, 0  ==  add rd, x0, rs
        rd, rs1, imm = [o.term for o in base]
        return z3.And(imm == 0, b[0] == rd, b[1] == 0, b[2] == rs1)
    return z3.BoolVal(False)


def lemma_obligations(ctx):
    """spec-level lemmas used by same_effect_goal, over an arbitrary register file"""
    regs = z3.Array('regfile', z3.BitVecSort(5), z3.BitVecSort(32))
    pc = z3.BitVec('pc', 32)
    rd, rs = z3.BitVec('rd', 5), z3.BitVec('rs', 5)
    ra, pa, ma = S.step(regs, pc, 'addi', (rd, rs, z3.BitVecVal(0, 32)))
    rb, pb, mb = S.step(regs, pc, 'add', (rd, z3.BitVecVal(0, 5), rs))
    ctx.add(Obligation('lemma/addi-rd-rs-0==add-rd-x0-rs (all register files)', [], z3.And(ra == rb, pa == pb), 'BV',
                       kind='lemma', cover=False))
