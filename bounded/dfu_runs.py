"""Bounded stand-in and replay driver for C18 / C19: the real dfu.cli_main against the simulated device."""
import json
import os
import subprocess
from concurrent.futures import ThreadPoolExecutor

from pyvc import REPO, REPO_PY, VERIF


def run(sc):
    env = dict(os.environ)
    env['BRONZEBEARD_REPO'] = REPO
    env['PYTHONDONTWRITEBYTECODE'] = '1'
    env.pop('PYTHONPATH', None)
    p = subprocess.run([REPO_PY, os.path.join(VERIF, 'bounded', 'dfu_sim.py'), json.dumps(sc)], capture_output=True, text=True,
                       env=env, timeout=300)
    try:
        return json.loads(p.stdout.strip().splitlines()[-1])
    except Exception:
        return {'harness_error': (p.stdout[-300:] + p.stderr[-600:])}


def scenarios(tier):
    lens = [0, 1, 2, 1023, 1024, 1025, 2047, 2048, 2049, 3000, 4096]
    scheds = [{}, {'default': {'busy_polls': 1, 'poll_ms': 3}}, {'default': {'busy_polls': 3, 'poll_ms': 70000}},
              {'0': {'busy_polls': 2, 'poll_ms': 1}, '1': {'busy_polls': 0}, 'default': {'busy_polls': 1, 'poll_ms': 256}}]
    out = []
    for n in lens:
        for si, s in enumerate(scheds):
            for pc in ((128,) if tier == 'quick' and n not in (0, 1025) else (128, 64, 32, 16)):
                for se in ((False,) if (tier == 'quick' and si) else (False, True)):
                    out.append({'length': n, 'schedule': s, 'page_count': pc, 'start_error': se, 'kind': 'ok'})
    # firmware contents: blank (0xff) pages, an all-blank image, zeros, a blank tail (the flash holds an older image: 0x3c everywhere)
    def pat(n):
        return bytes((i * 7 + 3) & 0xff for i in range(n))
    contents = {'blank-page-1': pat(1024) + b'\xff' * 1024 + pat(1124), 'all-blank-1024': b'\xff' * 1024, 'blank-page-0': b'\xff' * 1024 + pat(1024),
                'all-zero': bytes(2500), 'blank-tail': pat(1024) + b'\xff' * 700, 'all-blank-3000': b'\xff' * 3000,
                'blank-pages-1-2': pat(1024) + b'\xff' * 2048 + pat(5)}
    for name, fw in contents.items():
        for pc in ((128,) if tier == 'quick' else (128, 16)):
            out.append({'length': len(fw), 'firmware_hex': fw.hex(), 'content': name, 'schedule': {}, 'page_count': pc, 'start_error': False, 'kind': 'ok'})
    # sizes around the flash limit of each variant
    for pc in (16, 32, 64, 128):
        for d in ((-1, 0, 1) if tier == 'quick' else (-1025, -1024, -1, 0, 1, 1024, 1025, 1024 * pc)):
            n = 1024 * pc + d
            if tier == 'quick' and pc != 16 and d != 1:
                continue
            out.append({'length': n, 'schedule': {}, 'page_count': pc, 'kind': 'limit'})
    # error injections: single and double, at every operation of small runs
    for n in ((1500,) if tier == 'quick' else (1, 1500, 2500, 4096)):
        pages = (n + 1023) // 1024
        ops = pages * 3          # erase per page, then (set address, write) per page
        for i in range(ops):
            for status in ((4, 7) if tier == 'thorough' else (4,)):
                # the error is reported at once, or only after the device answered busy (status OK) once or twice
                for busy in (0, 1, 2):
                    for lenient in (False, True):
                        out.append({'length': n, 'schedule': {str(i): {'status': status, 'busy_polls': busy, 'poll_ms': 2}}, 'page_count': 128,
                                    'kind': 'error', 'at': [i], 'lenient': lenient})
        if tier == 'thorough':
            for i in range(ops):
                for j in range(i + 1, ops):
                    out.append({'length': n, 'schedule': {str(i): {'status': 3}, str(j): {'status': 8}}, 'page_count': 128,
                                'kind': 'error', 'at': [i, j]})
    return out


def judge(sc, r):
    """list of (property, key, message)"""
    f = []
    if 'harness_error' in r:
        return [('harness', 'harness', r['harness_error'])]
    n = sc['length']
    limit = 1024 * sc.get('page_count', 128)
    desc = 'len=%d pages=%d schedule=%s%s' % (n, sc.get('page_count', 128), json.dumps(sc.get('schedule', {})), ' start_error' if sc.get('start_error') else '')
    if n > limit:
        if r.get('non_status_requests', 0) or r.get('requests', 0):
            f.append(('C19', 'oversize:requests-sent', '%s: oversize firmware but %d requests were sent' % (desc, r.get('requests'))))
        if r['exit'] == 0 or r.get('done_printed'):
            f.append(('C19', 'oversize:not-refused', '%s: oversize firmware not refused (exit %r)' % (desc, r['exit'])))
        return f
    if sc['kind'] == 'error':
        if r['exit'] == 0 or r.get('done_printed'):
            f.append(('C19', 'device-error:reported-done', '%s: device reported an error status at operation %s but the run ended %s with exit status %r'
                      % (desc, sc['at'], "printing 'done!'" if r.get('done_printed') else 'quietly', r['exit'])))
        return f
    # normal run
    if r['exit'] != 0 or r.get('exc'):
        f.append(('C18', 'run:failed', '%s: a normal run failed: exit %r %s %s' % (desc, r['exit'], r.get('exc'), r.get('exit_msg'))))
        return f
    if not r.get('flash_ok'):
        f.append(('C18', 'flash:differs', '%s%s: flash differs from the padded firmware (first at %s, extra addresses %r, erased %r)' % (desc, (' content=' + sc['content']) if sc.get('content') else '', r.get('flash_first_diff'), r.get('flash_extra'), r.get('erased', [])[:3])))
    if r.get('violations'):
        f.append(('C18', 'protocol:busy', '%s: %s' % (desc, r['violations'][0])))
    want_sleeps = [ms / 1000 for ms in r.get('polls_requested', [])]
    if r.get('sleeps') != want_sleeps:
        f.append(('C18', 'poll-delay', '%s: poll delays waited %r, requested %r' % (desc, r.get('sleeps')[:6], want_sleeps[:6])))
    pages = r.get('pages', 0)
    image_pages = {0x08000000 + 1024 * i for i in range(pages)}
    # "no other page was erased or written" (the property does not demand that a page whose erased state already equals the image is written)
    if not set(r.get('erased', [])) <= image_pages:
        f.append(('C18', 'erase-set', '%s: pages outside the image erased: %r' % (desc, sorted(set(r.get('erased', [])) - image_pages)[:5])))
    if not {w[0] for w in r.get('written', [])} <= image_pages or any(w[1] != 1024 for w in r.get('written', [])):
        f.append(('C18', 'write-set', '%s: written chunks %r' % (desc, r.get('written')[:5])))
    return f


def run_all(ctx, tier, props):
    scs = scenarios(tier)
    ctx.b_rule('dfu: real dfu.cli_main against a simulated DfuSe device (fake usb module via sys.modules, time.sleep recorded): lengths around every '
               'page and flash-size boundary, 4 GD32 variants, busy schedules of 0-3 polls with poll times incl. > 65535 ms, error-state start, '
               'single%s error-status injections at every operation' % (' and double' if tier == 'thorough' else ''))
    with ThreadPoolExecutor(max_workers=12) as ex:
        results = list(ex.map(run, scs))
    for sc, r in zip(scs, results):
        ctx.b_eval('dfu', json.dumps(sc, sort_keys=True), nontrivial=True, sample={'scenario': sc, 'result': {k: r.get(k) for k in ('exit', 'done_printed', 'flash_ok', 'requests')}})
        for prop, key, msg in judge(sc, r):
            if prop == 'harness':
                ctx.errors.append('dfu harness: ' + msg[:300])
            elif prop in props:
                ctx.violation('bounded/dfu', key, msg, {'scenario': sc, 'result': r, 'how': 'bounded/dfu_sim.py <scenario> under /venv/bin/python'}, confirmed=True)


def replay(ctx, d, model):
    class C:
        def __init__(self):
            self.found, self.errors = [], []

        def b_rule(self, t):
            pass

        def b_eval(self, *a, **k):
            pass

        def violation(self, obligation, key, what, replay, confirmed=True, source='bounded'):
            self.found.append((key, what, replay))
    c = C()
    run_all(c, 'quick', set(d.get('props', ['C18', 'C19'])))
    want = d.get('key_prefix')
    found = [f for f in c.found if not want or f[0].startswith(want)] or c.found
    if not found:
        return None
    key, what, rep = found[0]
    return {'confirmed': True, 'key': key, 'what': what, 'input': rep}
