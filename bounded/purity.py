"""C16 stand-in: call histories in one process vs fresh processes; hash seeds; module tables before/after."""
import os
import random
import subprocess

from bounded import families, faults
from pyvc import real as R


def programs(tier, seed):
    rnd = random.Random(seed)
    progs = []
    for name in ('mix', 'li', 'val', 'pseudo', 'data'):
        ps = list(families.suite(name, 'quick', seed))
        rnd.shuffle(ps)
        progs += [p.source() for p in ps[:(40 if tier == 'thorough' else 10)]]
    for cls, lines in faults.FAULTS.items():
        for l in lines[:3]:
            if 'include' in l:
                continue
            progs.append('start:\n    addi x1, x1, 1\n%s\n    j start\n' % l)
    progs.append('FOO = 5\nBAR = FOO * 2\nstart:\n    addi x8, x8, BAR\n    li t0, (X := 7)\n    addi x8, x8, X\n')
    return progs


def digest(r):
    return r.req({'op': 'call', 'f': 'REGISTERS.__len__'}) and None


def tables_digest(rc):
    d = rc.req({'op': 'tables'})
    return d.get('ok')


def strip(rs):
    return {k: rs.get(k) for k in ('ok', 'labels', 'constants', 'exc', 'msg')}


def run_all(ctx, tier):
    progs = programs(tier, ctx.seed)
    ctx.b_rule('purity: %d programs (valid and failing) assembled (a) each in a fresh process, (b) all in one process in two different orders, '
               'both modes interleaved, (c) under %d PYTHONHASHSEED values; results (bytes, labels, constants, error) compared; digest of every '
               'module-level table before/after' % (len(progs), 8 if tier == 'thorough' else 4))
    base = {}
    for i, src in enumerate(progs):
        rc = R.RealCode()
        for c in (False, True):
            base[(i, c)] = strip(rc.assemble(src, compress=c))
        rc.close()
    shared = R.RealCode()
    t0 = tables_digest(shared)
    order = [(i, c) for i in range(len(progs)) for c in (False, True)]
    for rep, rnd_seed in enumerate((1, 2)):
        random.Random(ctx.seed * 31 + rnd_seed).shuffle(order)
        for (i, c) in order:
            got = strip(shared.assemble(progs[i], compress=c))
            ctx.b_eval('purity', ('history', rep, i, c), nontrivial=True, sample={'order_pos': order.index((i, c)), 'program': progs[i][:120]})
            if got != base[(i, c)]:
                ctx.violation('bounded/purity/history', 'history-dependent', 'result of assemble() depends on earlier calls in the process: '
                              'program %d (compress=%s) after %d other calls gives %r, alone %r' % (i, c, order.index((i, c)), str(got)[:150], str(base[(i, c)])[:150]),
                              {'program': progs[i], 'compress': c, 'earlier_calls': [progs[j][:200] for j, _ in order[:order.index((i, c))]][-5:]}, confirmed=True)
                break
    t1 = tables_digest(shared)
    if t0 != t1:
        ctx.violation('bounded/purity/tables', 'module-table-mutated', 'a module-level table changed during assemble() calls', {'before': t0, 'after': t1}, confirmed=True)
    shared.close()
    for hs in ((0, 1, 2, 3, 17, 99, 12345, 4294967295) if tier == 'thorough' else (0, 1, 42, 4294967295)):
        os.environ['PYTHONHASHSEED'] = str(hs)
        try:
            rc = R.RealCode()
        finally:
            os.environ.pop('PYTHONHASHSEED', None)
        for i, src in enumerate(progs):
            for c in (False, True):
                got = strip(rc.assemble(src, compress=c))
                ctx.b_eval('purity', ('hashseed', hs, i, c), nontrivial=True)
                if got != base[(i, c)]:
                    ctx.violation('bounded/purity/hashseed', 'hash-seed-dependent', 'result depends on PYTHONHASHSEED=%d: program %d compress=%s' % (hs, i, c),
                                  {'program': src, 'compress': c, 'seed': hs, 'got': got, 'base': base[(i, c)]}, confirmed=True)
                    break
        rc.close()
    include_order(ctx, tier)
    file_history(ctx, tier)


def file_history(ctx, tier):
    """the result is a function of the file contents AT THE TIME OF THE CALL: in one process, a source file, an included file
    and an include_bytes file are each replaced by different contents of the same length with the same modification time
    (cp -p, rsync -a, a sandbox that normalises mtimes); the next call must see the new contents, and a call that failed on
    a broken include must succeed once the file is repaired"""
    import shutil
    import tempfile
    root = tempfile.mkdtemp(prefix='bbpurf_')
    ctx.b_rule('purity/files: main.asm, an included file and an include_bytes file each replaced (same length, same mtime and with a new mtime) '
               'between two calls in one process; a failing include repaired; compared with a fresh process on the final tree')
    try:
        main = os.path.join(root, 'main.asm')
        inc = os.path.join(root, 'consts.asm')
        blob = os.path.join(root, 'blob.bin')

        def write(path, data, keep=None):
            mode = 'wb' if isinstance(data, bytes) else 'w'
            with open(path, mode) as f:
                f.write(data)
            if keep is not None:
                os.utime(path, ns=keep)

        steps = [
            ('include, same mtime', inc, 'VALUE = 0x11\n', 'VALUE = 0x22\n'),
            ('include, new mtime', inc, 'VALUE = 0x11\n', 'VALUE = 0x33\n'),
            ('main, same mtime', main, None, None),
            ('blob, same mtime', blob, bytes([1, 2, 3, 4]), bytes([9, 8, 7, 6])),
            ('broken include repaired', inc, 'VALUE = 0x44 +\n', 'VALUE = 0x44 \n'),
            # a call that FAILS while an included file is being read (its own nested include is missing), then the file appears
            ('failing nested include then the file appears', os.path.join(root, 'late.asm'), None, 'LATE = 9\n'),
        ]
        main_a = 'include consts.asm\nstart:\n    addi x5, x0, VALUE\ninclude_bytes blob.bin\n    j start\n'
        main_b = 'include consts.asm\nstart:\n    addi x6, x0, VALUE\ninclude_bytes blob.bin\n    j start\n'
        for name, path, before, after in steps:
            write(inc, 'VALUE = 0x11\n')
            write(blob, bytes([1, 2, 3, 4]))
            write(main, main_a)
            if path == main:
                before, after = main_a, main_b
            if before is None:
                # consts.asm includes late.asm, which does not exist during the first call
                if os.path.exists(path):
                    os.unlink(path)
                write(inc, 'VALUE = 0x11\ninclude late.asm\n')
                rc = R.RealCode()
                first = strip(rc.assemble(main, cwd='/'))
                write(path, after)
                second = strip(rc.assemble(main, cwd='/'))
                rc.close()
                fresh_rc = R.RealCode()
                fresh = strip(fresh_rc.assemble(main, cwd='/'))
                fresh_rc.close()
                os.unlink(path)
                ctx.b_eval('purity', ('file-history', name), nontrivial=True, sample={'step': name, 'first': str(first)[:80], 'second': str(second)[:80]})
                if second != fresh or first.get('ok') is not None:
                    ctx.violation('bounded/purity/history', 'history-dependent:failed-include', 'after a call that failed inside an included file (%s), the corrected '
                                  'tree gives %s in the same process, %s in a fresh one' % (str(first)[:80], str(second)[:100], str(fresh)[:100]),
                                  {'step': name}, confirmed=True)
                continue
            write(path, before)
            st = os.stat(path)
            rc = R.RealCode()
            first = strip(rc.assemble(main, cwd='/'))
            write(path, after, keep=(st.st_atime_ns, st.st_mtime_ns) if 'same mtime' in name or 'repaired' in name else None)
            second = strip(rc.assemble(main, cwd='/'))
            rc.close()
            fresh_rc = R.RealCode()
            fresh = strip(fresh_rc.assemble(main, cwd='/'))
            fresh_rc.close()
            ctx.b_eval('purity', ('file-history', name), nontrivial=True, sample={'step': name, 'first': str(first)[:80], 'second': str(second)[:80]})
            if second != fresh:
                ctx.violation('bounded/purity/history', 'history-dependent:file-contents', 'after %s was replaced (%s) a second call in the same process gives %s, '
                              'a fresh process %s' % (os.path.basename(path), name, str(second)[:120], str(fresh)[:120]),
                              {'step': name, 'file': os.path.basename(path), 'before': repr(before), 'after': repr(after), 'main': main_a}, confirmed=True)
    finally:
        shutil.rmtree(root, ignore_errors=True)


def include_order(ctx, tier):
    """the same file name in two -i directories and next to the source: the pick must not depend on the hash seed"""
    import shutil
    import tempfile
    root = tempfile.mkdtemp(prefix='bbpur_')
    try:
        dirs = [os.path.join(root, n) for n in ('lib', 'vendor', 'third', 'src')]
        for i, d in enumerate(dirs):
            os.makedirs(d)
            open(os.path.join(d, 'common.asm'), 'w').write('common%d:\n    addi x8, x8, %d\n' % (i, i + 1))
            open(os.path.join(d, 'table.bin'), 'wb').write(bytes([i + 1] * 4))
        main = os.path.join(dirs[3], 'main.asm')
        open(main, 'w').write('start:\ninclude common.asm\ninclude_bytes table.bin\n    j start\n')
        outs = {}
        for hs in range(12 if tier == 'quick' else 40):
            os.environ['PYTHONHASHSEED'] = str(hs)
            try:
                rc = R.RealCode()
            finally:
                os.environ.pop('PYTHONHASHSEED', None)
            got = strip(rc.assemble(main, include_dirs=dirs[:3]))
            rc.close()
            ctx.b_eval('purity', ('include-order', hs), nontrivial=True, sample={'hashseed': hs, 'result': str(got.get('ok'))})
            if 'ok' not in got:
                ctx.errors.append('purity harness: the include-order program does not assemble: %s' % str(got)[:200]) if hasattr(ctx, 'errors') else None
                return
            outs.setdefault(str(got), []).append(hs)
        if len(outs) > 1:
            ctx.violation('bounded/purity/hashseed', 'hash-seed-dependent:include-search', 'which of several same-named include files is picked depends on '
                          'PYTHONHASHSEED: %d different results over %d seeds' % (len(outs), sum(len(v) for v in outs.values())),
                          {'results': {k[:100]: v for k, v in outs.items()}, 'tree': 'common.asm / table.bin in lib, vendor, third (all -i) and next to main.asm'}, confirmed=True)
    finally:
        shutil.rmtree(root, ignore_errors=True)


def replay(ctx, d, model):
    class C:
        seed = 0

        def __init__(self):
            self.found = []

        def b_rule(self, t):
            pass

        def b_eval(self, *a, **k):
            pass

        def violation(self, obligation, key, what, replay, confirmed=True, source='bounded'):
            self.found.append((key, what, replay))
    c = C()
    run_all(c, 'quick')
    if not c.found:
        return None
    key, what, rep = c.found[0]
    return {'confirmed': True, 'key': key, 'what': what, 'input': rep}
