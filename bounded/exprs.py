"""C11 stand-in: constants evaluate as integer arithmetic and substitute transparently."""
import random

from pyvc.real import real

BIN = ['+', '-', '*', '//', '%', '<<', '>>', '&', '|', '^']


class E:
    def __init__(self, text, value):
        self.text, self.value = text, value


def lit(rnd, v=None):
    v = rnd.choice([0, 1, 2, 3, 7, 8, 15, 16, 31, 42, 100, 255, 256, 1000, 2047, 2048, 4096, 65535, 0x12345, 0x7fffffff, 0xffffffff]) if v is None else v
    form = rnd.choice(['dec', 'hex', 'bin', 'dec'])
    if form == 'hex':
        return E(hex(v), v)
    if form == 'bin':
        return E(bin(v), v)
    return E(str(v), v)


def charlit(c):
    return E("'%s'" % c, ord(c))


def tree(rnd, depth, names):
    if depth == 0 or rnd.random() < 0.25:
        r = rnd.random()
        if names and r < 0.3:
            n = rnd.choice(sorted(names))
            return E(n, names[n])
        if r < 0.4:
            return charlit(rnd.choice('AZaz09?!@$_~'))
        return lit(rnd)
    r = rnd.random()
    if r < 0.12:
        a = tree(rnd, depth - 1, names)
        return E('~%s' % paren(a), ~a.value)
    if r < 0.2:
        a = tree(rnd, depth - 1, names)
        return E('-%s' % paren(a), -a.value)
    op = rnd.choice(BIN)
    a, b = tree(rnd, depth - 1, names), tree(rnd, depth - 1, names)
    if op in ('//', '%') and b.value == 0:
        b = lit(rnd, 7)
    if op in ('<<', '>>'):
        b = lit(rnd, rnd.choice([0, 1, 4, 12, 31]))
    if op == '*' and abs(a.value) > 1 << 64:
        op = '+'
    if op == '<<' and abs(a.value) > 1 << 64:
        op = '>>'
    v = {'+': lambda: a.value + b.value, '-': lambda: a.value - b.value, '*': lambda: a.value * b.value, '//': lambda: a.value // b.value,
         '%': lambda: a.value % b.value, '<<': lambda: a.value << b.value, '>>': lambda: a.value >> b.value, '&': lambda: a.value & b.value,
         '|': lambda: a.value | b.value, '^': lambda: a.value ^ b.value}[op]()
    sp = rnd.choice([' ', ' ', ''])
    return E('%s%s%s%s%s' % (paren(a), sp, op, sp, paren(b)), v)


def paren(e):
    return '(%s)' % e.text if not e.text.lstrip('-').replace('_', '').isalnum() or e.text.startswith('-') else e.text


def run_all(ctx, tier):
    r = real()
    rnd = random.Random(ctx.seed * 13 + 1)
    ctx.b_rule('exprs: random expression trees of depth <= 3 over + - * // %% << >> & | ^ ~ unary-minus and parentheses with decimal / hex / binary / '
               'character literals and earlier constants, defined as constants and compared with Python integer arithmetic; every printable ASCII '
               'character literal; each constant then used as immediate, shift amount, register alias, data value and inside %hi / %lo / %position / li '
               'against the same program with the value written literally, both modes')
    # 1. values of constants
    for k in range(40 if tier == 'quick' else 400):
        names = {}
        lines = []
        for j in range(6):
            e = tree(rnd, rnd.randint(1, 3), names)
            n = 'K%d' % j
            lines.append('%s = %s' % (n, e.text))
            names[n] = e.value
        src = '\n'.join(lines) + '\n'
        rs = r.assemble(src)
        ctx.b_eval('exprs', src, nontrivial=True, sample={'source': src})
        if 'ok' not in rs or rs.get('constants') != names:
            bad = next((n for n in names if rs.get('constants', {}).get(n) != names[n]), None)
            text = next((l.split(' = ', 1)[1] for l in lines if l.startswith(bad + ' = ')), '')
            if 'ok' not in rs and rs.get('line') and rs['line'][1] and 1 <= rs['line'][1] <= len(lines):
                text = lines[rs['line'][1] - 1].split(' = ', 1)[1]
            inner_char = "'" in text and not (text.startswith("'") and text.endswith("'") and text.count("'") == 2)
            kind = 'charlit-inside-expression' if inner_char and 'ok' not in rs else ((('refused-' + str(rs.get('exc'))) if 'ok' not in rs else 'wrong'))
            ctx.violation('bounded/exprs/value', 'constant-value:%s' % kind,
                          'constant %s: the assembler says %r, integer arithmetic says %r (%s)' % (bad, rs.get('constants', {}).get(bad), names.get(bad), rs.get('msg', '')[:100]),
                          {'source': src, 'observed': rs.get('constants'), 'expected': names}, confirmed=True)
    # 2. every printable ASCII character literal
    for c in range(0x20, 0x7f):
        ch = chr(c)
        text = "'%s'" % (ch if ch != '\\' else '\\\\')
        src = 'CH = %s\n' % text
        rs = r.assemble(src)
        ctx.b_eval('exprs', ('char', c), nontrivial=True, sample={'source': src})
        if rs.get('constants', {}).get('CH') != c:
            ctx.violation('bounded/exprs/charlit', 'charlit:%s' % ch, 'character literal %s evaluates to %r (%s), expected %d' % (
                text, rs.get('constants', {}).get('CH'), rs.get('exc'), c), {'source': src, 'observed': rs}, confirmed=True)
    # 3. transparency: constant vs literal value / register
    uses = [
        ('imm', lambda n, v: 'addi x5, x6, %s' % n, lambda v: -2048 <= v <= 2047),
        ('imm-c', lambda n, v: 'addi x8, x8, %s' % n, lambda v: -2048 <= v <= 2047),
        ('shamt', lambda n, v: 'slli x8, x8, %s' % n, lambda v: 0 <= v <= 31),
        ('shamt-srli', lambda n, v: 'srli x9, x9, %s' % n, lambda v: 0 <= v <= 31),
        ('shamt-srai', lambda n, v: 'srai x5, x9, %s' % n, lambda v: 0 <= v <= 31),
        ('data', lambda n, v: 'dw %s' % n, lambda v: -2 ** 31 <= v < 2 ** 32),
        ('bytes', lambda n, v: 'db %s' % n, lambda v: -128 <= v < 256),
        ('li', lambda n, v: 'li t0, %s' % n, lambda v: True),
        ('hi', lambda n, v: 'lui t0, %%hi(%s)' % n, lambda v: True),
        ('lo', lambda n, v: 'addi t0, t0, %%lo(%s)' % n, lambda v: True),
        ('position', lambda n, v: 'li t1, %%position(here, %s)' % n, lambda v: True),
        ('pack', lambda n, v: 'pack <I, %s' % n, lambda v: 0 <= v < 2 ** 32),
        ('lw', lambda n, v: 'lw x8, %s(x9)' % n, lambda v: -2048 <= v <= 2047),
        ('expr', lambda n, v: 'addi x5, x6, %s + 1' % n, lambda v: -2048 <= v + 1 <= 2047),
        ('align', lambda n, v: 'align 4', lambda v: True),
    ]
    vals = [0, 1, 3, 4, 5, 16, 31, 32, 100, 124, 255, 2047, -1, -32, -2048, 0x12345, 0xffffffff, 0x80000000, 0x7ff, 0x800]
    for v in vals:
        for uname, mk, ok in uses:
            if not ok(v):
                continue
            a = 'VAL = %d\nhere:\n    %s\n    addi x1, x1, 1\n' % (v, mk('VAL', v))
            b = 'here:\n    %s\n    addi x1, x1, 1\n' % mk(str(v) if v >= 0 else '(%d)' % v if uname == 'expr' else str(v), v)
            for compress in (False, True):
                ra, rb = r.assemble(a, compress=compress), r.assemble(b, compress=compress)
                ctx.b_eval('exprs', ('use', uname, v, compress), nontrivial=True, sample={'with_constant': a, 'literal': b})
                if ra.get('ok') != rb.get('ok') or ('ok' not in ra):
                    ctx.violation('bounded/exprs/transparent', 'transparent:%s' % uname,
                                  'constant VAL = %d used as %s (compress=%s): %s, with the literal: %s' % (
                                      v, uname, compress, ra.get('ok') or '%s: %s' % (ra.get('exc'), ra.get('msg', '')[:80]), rb.get('ok') or rb.get('exc')),
                                  {'with_constant': a, 'literal': b, 'compress': compress}, confirmed=True)
    # register aliases
    alias_programs(ctx, r, relation='transparent')


def alias_programs(ctx, r, relation='transparent'):
    """a constant naming a register, in regular instructions AND as operand of pseudo-instructions (whose expansions are built
    later in the pipeline); relation 'transparent' (C11): same bytes as with the register written out, in both modes;
    relation 'accept' (C12): whatever assembles without -c assembles with it"""
    from bounded.gen import ABI
    forms = [lambda w: 'addi %s, %s, 1' % (w, w), lambda w: 'add x8, %s, x9' % w, lambda w: 'sw %s, 4(x2)' % w, lambda w: 'c.mv x8, %s' % w,
             lambda w: 'lw %s, 0(x8)' % w, lambda w: 'slli %s, %s, 2' % (w, w),
             # operands of pseudo-instructions
             lambda w: 'mv %s, a1' % w, lambda w: 'mv a1, %s' % w, lambda w: 'li %s, 5' % w, lambda w: 'li %s, 0x12345' % w, lambda w: 'neg %s, %s' % (w, w),
             lambda w: 'not %s, a2' % w, lambda w: 'bnez %s, here' % w, lambda w: 'beqz %s, here' % w, lambda w: 'bgt %s, a3, here' % w,
             lambda w: 'jr %s' % w, lambda w: 'jalr %s' % w, lambda w: 'seqz a0, %s' % w]
    for i in range(32):
        for spelling in ('x%d' % i, ABI[i], str(i)):
            for mk in forms:
                if i == 0 and mk('W').startswith('c.mv'):
                    continue
                a = 'W = %s\nhere:\n    %s\n' % (spelling, mk('W'))
                b = 'here:\n    %s\n' % mk(spelling)
                res = {}
                for compress in (False, True):
                    ra, rb = r.assemble(a, compress=compress), r.assemble(b, compress=compress)
                    res[compress] = ra
                    ctx.b_eval('exprs', ('alias', spelling, mk('W'), compress), nontrivial=True)
                    if relation == 'transparent' and (ra.get('ok') != rb.get('ok') or ra.get('exc') != rb.get('exc')):
                        ctx.violation('bounded/exprs/alias', 'alias:%s' % mk('W').split()[0],
                                      'register alias W = %s in %r (compress=%s): %s vs %s' % (spelling, mk('W'), compress, ra.get('ok') or ra.get('exc'), rb.get('ok') or rb.get('exc')),
                                      {'with_alias': a, 'literal': b, 'compress': compress}, confirmed=True)
                if relation == 'accept' and 'ok' in res[False] and 'ok' not in res[True]:
                    ctx.violation('bounded/exprs/accept', 'accept:alias:%s' % mk('W').split()[0],
                                  'W = %s / %r assembles without compression but with it fails: %s: %s' % (spelling, mk('W'), res[True].get('exc'), res[True].get('msg', '')[:120]),
                                  {'source': a}, confirmed=True)


def alias_accept_task(ctx):
    ctx.b_rule('alias-accept: a constant naming each of the 32 registers (3 spellings) as operand of 18 regular and pseudo-instruction forms: '
               'a program accepted without -c is accepted with it')
    alias_programs(ctx, real(), relation='accept')
