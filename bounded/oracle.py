"""Independent program-level oracle for the bounded stand-ins and for replaying pass-level counter-models.

A *program* is a list of line records that the generator (bounded/gen.py) builds together with their source
text, so the meaning of every line is known without consulting the assembler.  The real `assemble` (run by
bounded/realcode.py under /venv/bin/python, with resolve_blobs wrapped from outside to capture per-item byte
chunks) is then checked against that meaning using only the specification decoders (spec/rv32.py, spec/rvc.py).

Checks (property ids in brackets):
  concat     output == concatenation of the chunks, chunk lines in source order               [C09]
  size       labels/constants contribute nothing, instructions 2|4 bytes, data its documented size,
             align N the fewest zero bytes                                                     [C09]
  label      labels[n] == offset of the first byte after the label                              [C03]
  target     every pc-relative transfer lands on its label                                     [C03 C05]
  decode     literal-operand instructions decode to what the source named (after RVC expansion) [C01 C02 C04]
  value      label arithmetic (%offset %position bare %hi/%lo) encoded from final offsets       [C08 C07]
  li         li leaves its value                                                                [C05]
  data       data directive bytes                                                               [C10]
  modes      compress on vs off: same operations, data unchanged, nothing grows, labels not later [C04 C20 C12]
  eligible   with -c a literal-operand instruction that is the expansion of a legal c.X is 2 bytes [C20]
"""
import struct

from spec import rv32, rvc
from spec.ops import PY


def split_insns(data):
    """bytes of one source line -> list of (size, ('base'|'rvc', mnemonic, ops) | ('bad', ...))"""
    out = []
    i = 0
    while i < len(data):
        if len(data) - i < 2:
            out.append((len(data) - i, ('bad', 'odd-length', data[i:].hex())))
            break
        hw = data[i] | (data[i + 1] << 8)
        if hw & 3 != 3:
            c = rvc.classify(hw)
            if isinstance(c, tuple):
                out.append((2, ('rvc', c[0], c[1])))
            else:
                out.append((2, ('bad', c, '%04x' % hw)))
            i += 2
        else:
            if len(data) - i < 4:
                out.append((len(data) - i, ('bad', 'truncated', data[i:].hex())))
                break
            w = struct.unpack('<I', data[i:i + 4])[0]
            d = rv32.decode(w)
            out.append((4, ('base', d[0], d[1]) if d and d[0] != 'AMBIGUOUS' else ('bad', 'undecodable', '%08x' % w)))
            i += 4
    return out


def to_base(ins):
    """('rvc', m, ops) -> expansion ; ('base', m, ops) as is"""
    if ins[0] == 'rvc':
        m, ops = rvc.expand(ins[1], ins[2])
        return (m, tuple(rv32.canon(PY, r, v) for r, v in zip(rv32.roles(m), ops)))
    if ins[0] == 'base':
        return (ins[1], tuple(ins[2]))
    return ('bad',) + tuple(ins[1:])


def sext(x, n):
    s = 1 << (n - 1)
    return (x & (s - 1)) - (x & s)


class Layout:
    """offsets recomputed from the per-item chunks"""

    def __init__(self, prog, res):
        self.prog = prog
        self.out = bytes.fromhex(res['ok'])
        self.labels = res['labels']
        self.constants = res.get('constants', {})
        self.chunks = [(c[0], c[1], bytes.fromhex(c[2])) for c in (res.get('chunks') or [])]
        self.by_line = {}
        self.offset_of_line = {}
        pos = 0
        self.order_ok = True
        last = 0
        for ln, f, b in self.chunks:
            if ln < last:
                self.order_ok = False
            last = ln
            if ln not in self.offset_of_line:
                self.offset_of_line[ln] = pos
            self.by_line[ln] = self.by_line.get(ln, b'') + b
            pos += len(b)
        self.total = pos
        # offset at which each source line starts (lines without bytes: where the next byte would go)
        self.start = {}
        lines_with = sorted(self.offset_of_line)
        for rec in prog:
            ln = rec['ln']
            if ln in self.offset_of_line:
                self.start[ln] = self.offset_of_line[ln]
            else:
                nxt = [l for l in lines_with if l > ln]
                self.start[ln] = self.offset_of_line[nxt[0]] if nxt else self.total
        self.label_expected = {rec['name']: self.start[rec['ln']] for rec in prog if rec['kind'] == 'label'}

    def bytes_of(self, rec):
        return self.by_line.get(rec['ln'], b'')


def eval_value(v, lay, at):
    """expected integer value of an operand description, from recomputed offsets"""
    if isinstance(v, int):
        return v
    k = v[0]
    if k == 'label':
        return lay.label_expected[v[1]]
    if k == 'offset':
        return lay.label_expected[v[1]] - at
    if k == 'position':
        return eval_value(v[2], lay, at) + lay.label_expected[v[1]]
    if k == 'const':
        return v[2]
    if k == 'hi':
        x = eval_value(v[1], lay, at)
        return sext(((x + 0x800) >> 12) & 0xfffff, 20)
    if k == 'lo':
        x = eval_value(v[1], lay, at)
        return sext(x & 0xfff, 12)
    if k == 'add':
        return eval_value(v[1], lay, at) + eval_value(v[2], lay, at)
    if k == 'sub':
        return eval_value(v[1], lay, at) - eval_value(v[2], lay, at)
    raise KeyError(k)


DATA_SIZES = {'bytes': 1, 'shorts': 2, 'ints': 4, 'longs': 4, 'longlongs': 8, 'db': 1, 'dh': 2, 'dw': 4, 'dd': 8}


def le(v, n):
    return (v % (1 << (8 * n))).to_bytes(n, 'little')


def check_program(prog, res, compress, fails, want=None):
    """append (check, line record, message) to fails"""
    def bad(check, rec, msg):
        if want is None or check in want:
            fails.append({'check': check, 'line': rec and rec.get('text'), 'ln': rec and rec.get('ln'), 'msg': msg,
                          'compress': compress})
    if 'ok' not in res:
        return None
    lay = Layout(prog, res)
    if b''.join(c[2] for c in lay.chunks) != lay.out:
        bad('concat', None, 'output is not the concatenation of the per-item chunks')
    if not lay.order_ok:
        bad('concat', None, 'chunks are not in source order')
    known_lines = {r['ln'] for r in prog}
    for ln in lay.by_line:
        if ln not in known_lines:
            bad('concat', None, 'bytes attributed to line %d which has no item' % ln)
    for rec in prog:
        b = lay.bytes_of(rec)
        at = lay.start[rec['ln']]
        k = rec['kind']
        if k in ('label', 'const', 'comment'):
            if b:
                bad('size', rec, '%s contributes %d bytes' % (k, len(b)))
            if k == 'label':
                got = lay.labels.get(rec['name'])
                if got != lay.label_expected[rec['name']]:
                    bad('label', rec, 'label table says %r, first byte after the label is at %d' % (got, lay.label_expected[rec['name']]))
            continue
        if k == 'align':
            n = rec['n']
            want_len = (-at) % n
            if len(b) != want_len or any(b):
                bad('size', rec, 'align %d at offset %d emitted %d bytes (%s), expected %d zero bytes' % (n, at, len(b), b.hex()[:16], want_len))
            continue
        if k == 'data':
            exp = b''.join(le(eval_value(v, lay, at), DATA_SIZES[rec['d']]) for v in rec['values'])
            if b != exp:
                bad('data' if all(isinstance(v, int) for v in rec['values']) else 'value', rec, 'emitted %s expected %s' % (b.hex(), exp.hex()))
            continue
        if k == 'pack':
            exp = struct.pack(rec['fmt'], eval_value(rec['value'], lay, at))
            if b != exp:
                bad('data' if isinstance(rec['value'], int) else 'value', rec, 'emitted %s expected %s' % (b.hex(), exp.hex()))
            continue
        if k == 'string':
            if b != rec['bytes']:
                bad('data', rec, 'emitted %s expected %s' % (b.hex(), rec['bytes'].hex()))
            continue
        if k == 'raw':
            if b != rec['bytes']:
                bad('data', rec, 'emitted %s expected %s' % (b.hex(), rec['bytes'].hex()))
            continue
        # instruction-like lines
        ins = split_insns(b)
        if any(i[1][0] == 'bad' for i in ins):
            bad('decode', rec, 'emitted bytes %s do not decode: %r' % (b.hex(), [i[1] for i in ins if i[1][0] == 'bad']))
            continue
        if not compress and any(sz == 2 for sz, _ in ins) and not rec.get('c_source'):
            bad('size', rec, '16-bit instruction emitted without compression')
        base = [to_base(i[1]) for i in ins]
        sizes = [i[0] for i in ins]
        if k == 'insn':
            exp = (rec['m'], tuple(rv32.canon(PY, r, eval_value(v, lay, at)) for r, v in zip(rv32.roles(rec['m']), rec['ops'])))
            if len(base) != 1 or not same_insn(base[0], exp):
                chk = 'decode' if all(isinstance(v, int) for v in rec['ops']) else 'value'
                bad(chk, rec, 'decoded %r, source says %r' % (base, exp))
            elif compress and rec.get('literal') and sizes[0] == 4 and eligible(exp):
                bad('eligible', rec, '%r is the expansion of a legal RVC instruction but was emitted in 32 bits' % (exp,))
            continue
        if k == 'cinsn':
            exp = rvc.expand(rec['m'], tuple(eval_value(v, lay, at) for v in rec['ops']))
            exp = (exp[0], tuple(rv32.canon(PY, r, v) for r, v in zip(rv32.roles(exp[0]), exp[1])))
            if len(base) != 1 or sizes[0] != 2 or not same_insn(base[0], exp):
                bad('decode', rec, 'decoded %r, source says %s %r' % (base, rec['m'], exp))
            continue
        if k == 'transfer':
            # pc-relative control transfer to a label: branch / jal / j / call / tail and pseudo spellings
            tgt = lay.label_expected[rec['target']]
            got, link, cond = transfer_target(base, sizes, at)
            if got is None:
                bad('target', rec, 'emitted %r is not a control transfer' % (base,))
                continue
            if got % (1 << 32) != tgt % (1 << 32):
                bad('target', rec, 'transfers to %d, label %s is at %d (item at %d, emitted %r)' % (got, rec['target'], tgt, at, base))
            if 'link' in rec and link != rec['link']:
                bad('target', rec, 'link/scratch registers %r, documented %r' % (link, rec['link']))
            if 'cond' in rec and cond != rec['cond']:
                bad('target', rec, 'branches under %r, documented %r' % (cond, rec['cond']))
            continue
        if k == 'li':
            val = eval_li(base)
            rd_ok = val is not None and val[0] == rec['rd']
            want_v = eval_value(rec['value'], lay, at) % (1 << 32)
            if val is None or not rd_ok or val[1] != want_v:
                chk = 'li' if isinstance(rec['value'], int) else 'value'
                bad(chk, rec, 'li leaves %r, documented rd=%d value=0x%x (emitted %r)' % (val, rec['rd'], want_v, base))
            elif compress and rec.get('literal'):
                # the expansion of a literal li consists of literal-operand instructions: each eligible one is 16 bits wide
                for sz, bi in zip(sizes, base):
                    if sz == 4 and eligible(bi):
                        bad('eligible', rec, 'the expansion contains %r, the expansion of a legal RVC instruction, emitted in 32 bits' % (bi,))
            continue
        if k == 'expand':
            exp = [(m, tuple(rv32.canon(PY, r, v) for r, v in zip(rv32.roles(m), ops))) for m, ops in rec['expect']]
            if (len(base) != len(exp) or not all(same_insn(a, e) for a, e in zip(base, exp))) and same_effect_seq(base, exp) is not True:
                bad('decode', rec, 'decoded %r, documented expansion %r' % (base, exp))
            continue
        raise KeyError(k)
    return lay


def same_insn(a, b):
    if a == b:
        return True
    # addi rd, rs, 0 may legitimately appear as c.mv rd, rs == add rd, x0, rs: same effect
    for x, y in ((a, b), (b, a)):
        if x[0] == 'add' and y[0] == 'addi' and x[1][1] == 0 and y[1][2] == 0 and x[1][0] == y[1][0] and x[1][2] == y[1][1] \
                and x[1][0] != 0 and x[1][2] != 0:
            return True
    return False


def eligible(ins):
    m, ops = ins
    for cm in rvc.T:
        roles = rvc.roles(cm)
        # invert the expansion template by trying the operand values the base instruction offers
        cands = {}
        tmpl = {r: ('v', r) for r in roles}
        bm, bops = rvc.T[cm]['expand'](tmpl)
        if bm != m or len(bops) != len(ops):
            continue
        ok = True
        for role, bo, v in zip(rv32.roles(m), bops, ops):
            if isinstance(bo, tuple):
                if bo[1] in cands and cands[bo[1]] != v:
                    ok = False
                cands[bo[1]] = v
            elif bo != v:
                ok = False
        if not ok:
            continue
        cops = []
        for r, kind in zip(roles, rvc.kinds(cm)):
            v = cands.get(r)
            if v is None:
                ok = False
                break
            if kind == 'lui':
                v = sext(v, 20)
                if not (-32 <= v <= 31):
                    ok = False
                    break
            cops.append(v)
        if ok and rvc.legal(PY, cm, cops):
            return cm
    return None


def transfer_target(base, sizes, at):
    """(absolute target, link/scratch registers written, condition) of the emitted instruction(s)"""
    if len(base) == 1:
        m, ops = base[0]
        if m == 'jal':
            return at + ops[1], (ops[0],) if ops[0] else (), None
        if m in ('beq', 'bne', 'blt', 'bge', 'bltu', 'bgeu'):
            return at + ops[2], (), (m, ops[0], ops[1])
        return None, None, None
    if len(base) == 2 and base[0][0] == 'auipc' and base[1][0] == 'jalr':
        ard, aimm = base[0][1]
        jrd, jrs1, jimm = base[1][1]
        if jrs1 != ard:
            return None, None, None
        t = (at + (sext(aimm, 20) << 12) + jimm) & 0xfffffffe
        regs = tuple(sorted({r for r in (ard, jrd) if r}))
        return t, regs, None
    return None, None, None


M32 = (1 << 32) - 1


def _s32(x):
    x &= M32
    return x - (1 << 32) if x & (1 << 31) else x


def exec_insn(regs, pc, m, ops):
    """concrete RV32 step for the integer register-register / register-immediate instructions (RISC-V manual,
    RV32I chapter); returns (next pc) and updates regs in place; None for instructions outside this subset"""
    def R(i):
        return 0 if i == 0 else regs[i]

    def W(i, v):
        if i != 0:
            regs[i] = v & M32
    if m in ('addi', 'xori', 'ori', 'andi', 'slti', 'sltiu'):
        rd, rs1, imm = ops
        a, i = R(rs1), imm & M32
        W(rd, {'addi': a + i, 'xori': a ^ i, 'ori': a | i, 'andi': a & i, 'slti': int(_s32(a) < _s32(i)), 'sltiu': int(a < i)}[m])
    elif m in ('add', 'sub', 'xor', 'or', 'and', 'slt', 'sltu', 'sll', 'srl', 'sra'):
        rd, rs1, rs2 = ops
        a, b = R(rs1), R(rs2)
        W(rd, {'add': a + b, 'sub': a - b, 'xor': a ^ b, 'or': a | b, 'and': a & b, 'slt': int(_s32(a) < _s32(b)),
               'sltu': int(a < b), 'sll': a << (b & 31), 'srl': a >> (b & 31), 'sra': _s32(a) >> (b & 31)}[m])
    elif m in ('slli', 'srli', 'srai'):
        rd, rs1, sh = ops
        a = R(rs1)
        W(rd, {'slli': a << sh, 'srli': a >> sh, 'srai': _s32(a) >> sh}[m])
    elif m == 'lui':
        W(ops[0], ops[1] << 12)
    elif m == 'auipc':
        W(ops[0], pc + (ops[1] << 12))
    else:
        return None
    return pc + 4


def run_seq(base, seed):
    import random
    rnd = random.Random(seed)
    regs = [0] + [rnd.getrandbits(32) for _ in range(31)]
    before = list(regs)
    pc = 0x1000
    for m, ops in base:
        pc = exec_insn(regs, pc, m, ops)
        if pc is None:
            return None, None
    return before, regs


def eval_li(base):
    """(rd, value mod 2**32) left by the emitted sequence on arbitrary register files, if it behaves like
    `rd := constant` and touches nothing else; else None"""
    outs = []
    for seed in (1, 2, 3):
        before, after = run_seq(base, seed)
        if before is None:
            return None
        changed = [i for i in range(32) if before[i] != after[i]]
        outs.append((before, after, changed))
    # the destination: the register written by the last instruction
    rd = base[-1][1][0] if base else None
    if rd is None:
        return None
    vals = {o[1][rd] for o in outs}
    if len(vals) != 1:
        return None
    for before, after, changed in outs:
        if any(i != rd for i in changed):
            return None
    return rd, vals.pop() if rd != 0 else 0


def same_effect_seq(a, b):
    """two straight-line sequences have the same effect on three random register files (None: not executable)"""
    for seed in (11, 12, 13):
        b1, a1 = run_seq(a, seed)
        b2, a2 = run_seq(b, seed)
        if b1 is None or b2 is None:
            return None
        if a1 != a2:
            return False
    return True


def compare_modes(prog, lay_n, lay_c, fails):
    """compression on vs off on the same program"""
    def bad(check, rec, msg):
        fails.append({'check': check, 'line': rec and rec.get('text'), 'ln': rec and rec.get('ln'), 'msg': msg, 'compress': True})
    if lay_c.total > lay_n.total:
        bad('modes', None, 'compressed binary is longer: %d > %d' % (lay_c.total, lay_n.total))
    for n, v in lay_n.labels.items():
        if n in lay_c.labels and lay_c.labels[n] > v:
            bad('modes', None, 'label %s moved later: %d -> %d' % (n, v, lay_c.labels[n]))
    for rec in prog:
        bn, bc = lay_n.bytes_of(rec), lay_c.bytes_of(rec)
        k = rec['kind']
        if k in ('data', 'pack', 'string', 'raw'):
            if k in ('string', 'raw') or all(isinstance(v, int) for v in rec.get('values', [rec.get('value')])):
                if bn != bc:
                    bad('modes', rec, 'data bytes differ between modes: %s vs %s' % (bn.hex(), bc.hex()))
            continue
        if k in ('insn', 'cinsn', 'expand', 'li', 'transfer'):
            a = [to_base(i[1]) for i in split_insns(bn)]
            b = [to_base(i[1]) for i in split_insns(bc)]
            if any(x[0] == 'bad' for x in a + b):
                continue
            if k == 'transfer':
                ta = transfer_target(a, None, lay_n.start[rec['ln']])
                tb = transfer_target(b, None, lay_c.start[rec['ln']])
                if ta[0] is None or tb[0] is None:
                    continue
                la, lb = lay_n.label_expected[rec['target']], lay_c.label_expected[rec['target']]
                if (ta[0] - la) % (1 << 32) != (tb[0] - lb) % (1 << 32) or ta[2] != tb[2] or (len(a) == len(b) and ta[1] != tb[1]):
                    bad('modes', rec, 'control transfer differs between modes: %r vs %r' % (a, b))
            elif k == 'li':
                if eval_li(a) != eval_li(b) and isinstance(rec['value'], int):
                    bad('modes', rec, 'li differs between modes: %r vs %r' % (a, b))
            elif all(isinstance(v, int) for v in rec.get('ops', [])) or k == 'expand':
                if len(a) != len(b) or not all(same_insn(x, y) for x, y in zip(a, b)):
                    bad('modes', rec, 'operation differs between modes: %r vs %r' % (a, b))
            elif k == 'insn' and len(a) == 1 and len(b) == 1:
                # label-dependent immediate: the layouts differ between the modes, so the values do; what must NOT differ is how
                # the immediate relates to its expression evaluated at the item's own offset in the same mode
                roles = rv32.roles(rec['m'])
                idx = next((i for i, r in enumerate(roles) if r.startswith('imm')), None)
                if idx is None:
                    continue

                def deviation(ins, lay):
                    m, ops = ins
                    if m == rec['m']:
                        got = ops[idx]
                    elif rec['m'] == 'addi' and m == 'add' and ops[1] == 0:       # c.mv rd, rs: addi rd, rs, 0
                        got = 0
                    else:
                        return None
                    want = rv32.canon(PY, roles[idx], eval_value(rec['ops'][idx], lay, lay.start[rec['ln']]))
                    width = 20 if roles[idx] == 'immU' else 12
                    return (rv32.canon(PY, roles[idx], got) - want) % (1 << width)
                da, db = deviation(a[0], lay_n), deviation(b[0], lay_c)
                if da is not None and db is not None and da != db:
                    bad('modes', rec, 'the immediate relates differently to its expression in the two modes: off by %d without compression, '
                        'by %d with it (%r vs %r)' % (da, db, a, b))
