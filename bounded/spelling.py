"""C13 stand-in: every generated program rendered twice - canonically and with the documented spelling freedoms
chosen independently per line and per operand (separators, blank lines, whole-line and trailing comments,
indentation, register spelling, integer base, imm(reg) vs reg, imm) - must assemble to identical bytes and labels."""
import random

from bounded import families, gen
from pyvc.real import real

SUITES = ['mix', 'pseudo', 'li', 'val', 'data', 'cedge', 'align', 'dist', 'rand']


def pairs(suite, tier, seed, variants):
    base = families.suite(suite, tier, seed)
    styled = [families.suite(suite, tier, seed) for _ in range(variants)]
    k = 0
    while True:
        gen.CURRENT_STYLE = None
        try:
            p0 = next(base)
        except StopIteration:
            return
        vs = []
        for vi, g in enumerate(styled):
            gen.CURRENT_STYLE = gen.Style(random.Random((seed * 7919 + k) * 31 + vi))
            try:
                vs.append(next(g))
            finally:
                gen.CURRENT_STYLE = None
        k += 1
        yield p0, vs


def strip(rs):
    return {k: rs.get(k) for k in ('ok', 'labels', 'exc')}


def run_all(ctx, tier, limit_per_suite=None):
    r = real()
    variants = 3 if tier == 'thorough' else 2
    limit = limit_per_suite or (100000 if tier == 'thorough' else 250)
    ctx.b_rule('spelling: each generated program (suites %s) rendered canonically and in %d random styles: operand separators among ", " " " "," " , " tab; '
               '0-2 blank / comment lines before an item; trailing comments; indentation by spaces / tabs; register as xN, ABI name or number; '
               'integers in decimal, hex or binary; imm(reg) vs reg, imm for loads, stores, jalr, c.lw, c.sw - each chosen independently per line and '
               'operand; bytes and label table must be identical in both modes' % (SUITES, variants))
    for suite in SUITES:
        n = 0
        for p0, vs in pairs(suite, 'quick', ctx.seed, variants):
            n += 1
            if n > limit:
                break
            if len(p0.source()) > 200000:
                continue
            for compress in (False, True):
                b = strip(r.assemble(p0.source(), compress=compress))
                for v in vs:
                    g = strip(r.assemble(v.source(), compress=compress))
                    ctx.b_eval('spelling', (suite, p0.tag, compress, id(v)), nontrivial='ok' in b, sample={'canonical': p0.source()[:200], 'variant': v.source()[:300]})
                    same = (b.get('ok') == g.get('ok') and b.get('labels') == g.get('labels')) if 'ok' in b else ('ok' not in g)
                    if not same:
                        which = diff_kind(p0, v)
                        ctx.violation('bounded/spelling', 'spelling:%s' % which,
                                      '%s: the respelled program assembles differently (compress=%s): %s vs %s' % (
                                          p0.tag, compress, str(g)[:120], str(b)[:120]),
                                      {'canonical': p0.source()[:4000], 'variant': v.source()[:6000], 'compress': compress}, confirmed=True)
                        break


def diff_kind(p0, v):
    """which line of the variant is the first whose removal of style makes the difference go away (best effort)"""
    a = [r_ for r_ in p0.recs if r_['kind'] != 'comment']
    b = [r_ for r_ in v.recs if r_['kind'] != 'comment']
    r = real()
    for i, (x, y) in enumerate(zip(a, b)):
        if x['text'] != y['text']:
            s0 = '\n'.join(q['text'] for q in a) + '\n'
            s1 = '\n'.join((y['text'] if j == i else q['text']) for j, q in enumerate(a)) + '\n'
            if strip(r.assemble(s0)) != strip(r.assemble(s1)):
                return (x['text'].split() or ['?'])[0] + ':' + x['kind']
    return 'layout'


def replay(ctx, d, model):
    class C:
        seed = 0

        def __init__(self):
            self.found = []

        def b_rule(self, t):
            pass

        def b_eval(self, *a, **k):
            pass

        def violation(self, obligation, key, what, replay, confirmed=True, source='bounded'):
            self.found.append((key, what, replay))
    c = C()
    run_all(c, 'quick', limit_per_suite=60)
    if not c.found:
        return None
    key, what, rep = c.found[0]
    return {'confirmed': True, 'key': key, 'what': what, 'input': rep}
