"""C10 stand-in for `string`: UTF-8 encoding of the text after backslash-escape processing."""
import random

from pyvc.real import real

ESCAPES = {'\\n': '\n', '\\t': '\t', '\\\\': '\\', '\\x41': 'A', '\\0': '\0', '\\r': '\r', '\\u00e9': 'é', '\\"': '"', "\\'": "'"}


def expected(text):
    """independent escape processor: the documented escapes, everything else literal"""
    out = []
    i = 0
    while i < len(text):
        for k, v in ESCAPES.items():
            if text.startswith(k, i):
                out.append(v)
                i += len(k)
                break
        else:
            out.append(text[i])
            i += 1
    return ''.join(out).encode('utf-8')


def run_all(ctx, tier):
    r = real()
    rnd = random.Random(ctx.seed + 5)
    ctx.b_rule('strings: one `string` line per code point (%s), multi-character strings mixing ASCII, Latin-1, BMP and astral characters with '
               'the escapes \\n \\t \\\\ \\xNN \\uNNNN; expected bytes from an independent escape processor + UTF-8' %
               ('every code point U+0020..U+10FFFF except surrogates, exhaustive' if tier == 'thorough' else 'all of U+0020..U+2FFF, then every 97th up to U+10FFFF'))
    cps = [c for c in range(0x20, 0x110000) if not (0xd800 <= c <= 0xdfff) and c != 0x5c and c not in (0x85, 0x2028, 0x2029, 0x1c, 0x1d, 0x1e, 0x0c, 0x0b)]
    if tier != 'thorough':
        cps = [c for c in cps if c < 0x3000 or c % 97 == 0]
    batch = 2000
    for i in range(0, len(cps), batch):
        chunk = cps[i:i + batch]
        # trailing "|" keeps a trailing space / quote significant; each line is one string item
        src = ''.join('string %s|\n' % chr(c) for c in chunk)
        rs = r.chunks(src, False)
        for c in chunk:
            ctx.bounded['evaluations'] += 1
        ctx.b_eval('strings', ('batch', i), nontrivial=True, sample={'first': 'string %s|' % chr(chunk[0]), 'count': len(chunk)})
        ctx.bounded['distinct'].update(('strings', c) for c in chunk[:50])
        if 'ok' not in rs:
            ctx.violation('bounded/strings', 'string:refused', 'a batch of one-character strings is refused: %s %s' % (rs.get('exc'), rs.get('msg', '')[:100]),
                          {'first_cp': chunk[0], 'last_cp': chunk[-1], 'observed': rs}, confirmed=True)
            continue
        got = {c[0]: bytes.fromhex(c[2]) for c in rs['chunks']}
        for j, c in enumerate(chunk):
            want = (chr(c) + '|').encode('utf-8')
            if got.get(j + 1) != want:
                ctx.violation('bounded/strings', 'string:codepoint-%s' % ('ascii' if c < 128 else 'non-ascii'),
                              'string %r (U+%04X) emits %s, UTF-8 is %s' % (chr(c), c, got.get(j + 1, b'').hex(), want.hex()),
                              {'source': 'string %s|' % chr(c), 'observed': got.get(j + 1, b'').hex()}, confirmed=True)
                break
    alphabet = ['a', 'Z', ' ', '0', 'é', 'ÿ', 'Ж', '日', '\U0001f600', '\\n', '\\t', '\\\\', '\\x41', '\\u00e9', '#', ',', '(', ')', '"', "'", '=', ':', '%']
    lines = []
    for _ in range(400 if tier == 'quick' else 4000):
        s = ''.join(rnd.choice(alphabet) for _ in range(rnd.randint(1, 12)))
        if s.endswith('\\') or s.strip() != s:
            s = s.strip() + 'x'
        lines.append(s)
    src = ''.join('string %s\n' % s for s in lines)
    rs = r.chunks(src, False)
    if 'ok' not in rs:
        ctx.violation('bounded/strings', 'string:refused', 'mixed strings refused: %s %s' % (rs.get('exc'), rs.get('msg', '')[:200]), {'observed': rs}, confirmed=True)
        return
    got = {c[0]: bytes.fromhex(c[2]) for c in rs['chunks']}
    for j, s in enumerate(lines):
        ctx.b_eval('strings', ('mixed', s), nontrivial=True, sample={'line': 'string ' + s})
        want = expected(s)
        if got.get(j + 1) != want:
            ctx.violation('bounded/strings', 'string:mixed', 'string %r emits %s, expected %s' % (s, got.get(j + 1, b'').hex(), want.hex()),
                          {'source': 'string ' + s}, confirmed=True)
            break

    # trailing white space belongs to the text (the text runs to the end of the line), inline source and source file alike
    import os
    import tempfile
    tails = ['hello ', 'Name:   ', 'tab\t'.replace('\\t', '\t'), 'x \t ', 'grüße ', '日本語  ', 'a b  c ', 'ends with escape\\n ', 'q\t\t']
    tails = [t.replace('\\t', '\t') for t in tails]
    tails += ['C:\\\\temp\\\\', 'ends in an escaped backslash\\\\', '日本\\\\', 'x\\\\']      # text ends in \\ (one backslash); more lines follow
    src = ''.join('string %s\n' % t for t in tails)
    d = tempfile.mkdtemp(prefix='bbstr_')
    try:
        path = os.path.join(d, 'tails.asm')
        with open(path, 'w', newline='') as f:
            f.write(src)
        for how, arg in (('inline', src), ('file', path)):
            rs = r.chunks(arg, False)
            if 'ok' not in rs:
                ctx.violation('bounded/strings', 'string:refused', 'strings with trailing white space refused (%s): %s %s' % (how, rs.get('exc'), rs.get('msg', '')[:200]),
                              {'source': src, 'observed': rs}, confirmed=True)
                continue
            got = {c[0]: bytes.fromhex(c[2]) for c in rs['chunks']}
            for j, t in enumerate(tails):
                ctx.b_eval('strings', ('tail', how, t), nontrivial=True, sample={'line': 'string ' + t})
                want = expected(t)
                if got.get(j + 1) != want:
                    ctx.violation('bounded/strings', 'string:trailing-white-space', 'string %r (%s) emits %r, expected %r' % (t, how, got.get(j + 1, b''), want),
                                  {'source': 'string ' + t, 'how': how}, confirmed=True)
                    break
    finally:
        import shutil
        shutil.rmtree(d, ignore_errors=True)
