"""C15 stand-in and replay bank: each fault class planted at positions of otherwise valid programs, in included
files of depth <= 3, both modes; the failure must be AssemblerError naming the file and 1-based line."""
import os
import shutil
import tempfile

from pyvc.real import real

FAULTS = {
    'operand-out-of-range': ['addi x1, x1, 5000', 'c.addi x8, 100', 'beq x1, x2, 3', 'lui x1, 0x100000', 'slli x1, x1, 32', 'lw x1, 4096(x2)',
                             'bytes 300', 'db -200', 'pack <H 70000', 'shorts 1 2 70000', 'dw 0x100000000', 'jal x1, 3', 'c.lw x8, x9, 3',
                             'c.srli x8, 32', 'c.beqz x8, 1000', 'fence 16 0', 'amoadd.w x1 x2 x3 2 0', 'dd -9223372036854775809'],
    'unknown-register': ['addi x1, q7, 1', 'c.lw x8, x3, 0', 'mv t0, t9', 'add x32, x1, x1', 'sw x1, 0(y2)', 'bgt t0, q9, main', 'c.mv x0, x1',
                         'srli x8, x8, x40', 'jr nope'],
    'undefined-name': ['j nowhere', 'addi x1, x1, NOPE', 'dw missing', 'li t0, %position(nolabel, 0)', 'call missing', 'beqz t0, missing',
                       'tail missing', 'lui x1, %hi(missing)', 'pack <I missing', 'li t0, missing + 1', 'jal x1, missing', 'X2 = UNDEF + 1'],
    'malformed-expression': ['addi x1, x1, 1 +', 'li t0, 1.5', "li t0, 'ab'", 'X3 = (1', 'bytes 1 zz', 'li t0 %hi', "li t0, '\\x'",
                             'addi x1 x1 "s"', 'li t0, %offset', 'lui x1 %hi(', 'li t0, 3 // 0', 'dw 1 2', 'ints 0x', 'li t0, [1]',
                             'addi x1, x1, %lo()', 'X4 = %hi(3)', 'xori x5, x5, 1 << (3 - 8)', 'li t0, 1 >> -1', 'X5 = 5 % 0', 'dw 2 ** -1',
                             'lui x5, 1 << -2', 'li t0, (1).x', 'li t0, [1][2]', 'li t0, {}[1]', 'li t0, 10 ** 10 ** 10 ** 10' if False else 'li t0, 1 if'],
    'error-directive': ['error this is bad', 'error'],
    'missing-include': ['include nothere.asm', 'include_bytes nothere.bin', 'include'],
}
# lines that are faulty but outside the property's list (reported as observations only)
OUTSIDE = ['sw t0', 'align', 'li', 'mv t0', 'pack <Z 1', 'align 0']

# defs.asm (constants only) is included several times on the way to the fault: by every level and twice by the faulty file itself
VALID_BEFORE = ['include defs.asm', 'blob:', 'include_bytes blob.bin', '    align 4', 'include defs.asm', 'start:', '    addi x8, x8, 1', '    li t0, 0x12345', 'FOO = 7', '    call start', '    align 4', '    dw start', 'mid:']
VALID_AFTER = ['    align 4', '    li t1, 17', '    beqz x8, start', '    string ok', 'end:', '    j mid']


def programs(tier):
    """(files dict, top file, faulty file, faulty line number, class, text)"""
    positions = ('first', 'middle', 'last') if tier == 'thorough' else ('middle', 'first')
    depths = (0, 1, 2, 3) if tier == 'thorough' else (0, 2)
    for cls, lines in FAULTS.items():
        for li, fault in enumerate(lines):
            for pos in positions if (tier == 'thorough' or li % 2 == 0) else ('last',):
                for depth in depths if (tier == 'thorough' or li % 3 == 0) else (0,):
                    # the fault is followed by an align so that a faulty data line cannot cause a second, consequential error
                    body = {'first': [fault, '    align 4'] + VALID_BEFORE + VALID_AFTER, 'middle': VALID_BEFORE + [fault] + VALID_AFTER,
                            'last': VALID_BEFORE + VALID_AFTER + [fault]}[pos]
                    lineno = body.index(fault) + 1
                    files = {}
                    inner = 'f%d.asm' % depth
                    files[inner] = '\n'.join(body) + '\n'
                    files['defs.asm'] = '# shared definitions\nDEFS_N = 3\nDEFS_M = DEFS_N + 1\n'
                    # wrap in includes: each level has its own lines before the include
                    for d in range(depth - 1, -1, -1):
                        files['f%d.asm' % d] = '# level %d\ninclude defs.asm\nlvl%d:\n    addi x9, x9, %d\n\ninclude f%d.asm\n    addi x9, x9, 2\n' % (d, d, d, d + 1)
                    yield files, 'f0.asm', inner, lineno, cls, fault, pos, depth


def run_all(ctx, tier, limit=None):
    d = tempfile.mkdtemp(prefix='bbfault_')
    r = real()
    try:
        ctx.b_rule('faults: %d faulty lines in 6 classes (operand out of range incl. data values, unknown register, undefined label/constant, '
                   'malformed / non-integer expression, error directive, missing include) planted first/middle/last in a valid program, in '
                   'included files of depth 0-3, both modes; expected AssemblerError with that file and 1-based line' % sum(len(v) for v in FAULTS.values()))
        n = 0
        for files, top, inner, lineno, cls, fault, pos, depth in programs(tier):
            if limit and n >= limit:
                break
            n += 1
            work = tempfile.mkdtemp(prefix='p_', dir=d)
            for name, text in files.items():
                open(os.path.join(work, name), 'w').write(text)
            open(os.path.join(work, 'blob.bin'), 'wb').write(b'\x01\x02\x03\x04\x05')
            for compress in (False, True):
                rs = r.assemble(os.path.join(work, top), compress=compress)
                case = '%s|%s|%s|depth%d|c%d' % (cls, fault, pos, depth, int(compress))
                ctx.b_eval('faults', case, nontrivial=True, sample={'fault': fault, 'class': cls, 'position': pos, 'include_depth': depth})
                want_file = os.path.join(work, inner)
                if 'ok' in rs:
                    ctx.notes.append('observation: faulty line accepted: %r' % fault) if ('accepted:%s' % fault) not in ctx.notes else None
                    if ('accepted', fault) not in getattr(ctx, '_acc', set()):
                        ctx._acc = getattr(ctx, '_acc', set()) | {('accepted', fault)}
                        ctx.violation('bounded/faults/accepted', 'fault-accepted:%s' % fault.split()[0],
                                      'faulty line %r (%s) is accepted without an error' % (fault, cls), {'files': files, 'compress': compress}, confirmed=True)
                    continue
                if rs.get('exc') != 'AssemblerError':
                    ctx.violation('bounded/faults/raw-exception', 'raw:%s:%s' % (rs.get('exc'), cls),
                                  '%r (%s, %s of the program, include depth %d, compress=%s) fails with %s: %s instead of the assembler error' % (
                                      fault, cls, pos, depth, compress, rs.get('exc'), rs.get('msg', '')[:120]),
                                  {'files': files, 'top': top, 'compress': compress, 'observed': rs}, confirmed=True)
                    continue
                got = rs.get('line') or [None, None]
                if got[0] != want_file or got[1] != lineno:
                    ctx.violation('bounded/faults/wrong-line', 'line:%s' % cls,
                                  '%r at %s:%d reported at %s:%s (compress=%s)' % (fault, inner, lineno, os.path.basename(str(got[0])), got[1], compress),
                                  {'files': files, 'top': top, 'compress': compress, 'observed': rs, 'expected': [inner, lineno]}, confirmed=True)
            shutil.rmtree(work, ignore_errors=True)
    finally:
        shutil.rmtree(d, ignore_errors=True)


def replay(ctx, d, model):
    class C:
        def __init__(self):
            self.found, self.notes = [], []

        def b_rule(self, t):
            pass

        def b_eval(self, *a, **k):
            pass

        def violation(self, obligation, key, what, replay, confirmed=True, source='bounded'):
            self.found.append((key, what, replay))
    c = C()
    run_all(c, 'quick')
    want = d.get('exc')
    found = [f for f in c.found if want and want in f[0]] or c.found
    if not found:
        return None
    key, what, rep = found[0]
    return {'confirmed': True, 'key': key, 'what': what, 'input': rep}
