"""Server that runs the REAL bronzebeard code (from the tree under $BRONZEBEARD_REPO,
default /repo) on concrete inputs.  Started by pyvc.real under /venv/bin/python;
speaks JSON lines on stdin/stdout.  Used for replays of counter-models, for the
engine cross-check against CPython and for the bounded stand-ins.
"""
import io
import json
import os
import struct
import sys
import tempfile
import traceback

REPO = os.environ.get('BRONZEBEARD_REPO', '/repo')
sys.path.insert(0, REPO)
import bronzebeard.asm as asm  # noqa: E402

assert os.path.realpath(asm.__file__).startswith(os.path.realpath(REPO) + os.sep), \
    'replay must run on the tree the VCs came from: %s' % asm.__file__


def enc(v):
    if isinstance(v, (bytes, bytearray)):
        return {'__bytes__': bytes(v).hex()}
    if isinstance(v, (int, str, bool, type(None), float)):
        return v
    if isinstance(v, (list, tuple)):
        return [enc(x) for x in v]
    if isinstance(v, dict):
        return {str(k): enc(x) for k, x in v.items()}
    if isinstance(v, asm.Line):
        return {'__line__': [v.file, v.number, v.contents]}
    if isinstance(v, asm.Expr):
        return {'__expr__': repr(v)}
    if isinstance(v, asm.Item) or isinstance(v, asm.LineTokens):
        d = {'__class__': type(v).__name__}
        for k, x in vars(v).items():
            d[k] = enc(x)
        return d
    return {'__repr__': repr(v)}


def dec(v):
    if isinstance(v, dict):
        if '__bytes__' in v:
            return bytes.fromhex(v['__bytes__'])
        if '__expr__' in v:
            return eval(v['__expr__'], {n: getattr(asm, n) for n in ('Arithmetic', 'Position', 'Offset', 'Hi', 'Lo')})
        if '__line__' in v:
            return asm.Line(*v['__line__'])
        if '__item__' in v:
            cls = getattr(asm, v['__item__'])
            return cls(*[dec(x) for x in v['args']])
        return {k: dec(x) for k, x in v.items()}
    if isinstance(v, list):
        return [dec(x) for x in v]
    return v


def exc_info(e):
    d = {'exc': type(e).__name__, 'msg': str(e)[:300], 'module': type(e).__module__}
    if isinstance(e, asm.AssemblerError):
        ln = e.line
        d['line'] = [getattr(ln, 'file', None), getattr(ln, 'number', None)]
    tb = traceback.extract_tb(e.__traceback__)
    if tb:
        d['where'] = '%s:%d' % (os.path.basename(tb[-1].filename), tb[-1].lineno)
    return d


def do(req):
    op = req['op']
    if op == 'encode':
        f = asm.INSTRUCTIONS[req['m']]
        return {'ok': f(*[dec(a) for a in req.get('args', [])], **dec(req.get('kwargs', {})))}
    if op == 'call':
        f = asm
        for p in req['f'].split('.'):
            f = getattr(f, p)
        return {'ok': enc(f(*[dec(a) for a in req.get('args', [])], **dec(req.get('kwargs', {}))))}
    if op == 'method':
        obj = dec(req['obj'])
        r = getattr(obj, req['name'])(*[dec(a) for a in req.get('args', [])])
        return {'ok': enc(r)}
    if op == 'assemble':
        labels = dec(req['labels']) if req.get('labels') is not None else {}
        constants = dec(req['constants']) if req.get('constants') is not None else {}
        cwd = os.getcwd()
        try:
            if req.get('cwd'):
                os.chdir(req['cwd'])
            out = asm.assemble(req['src'], compress=bool(req.get('compress')), labels=labels, constants=constants,
                               include_dirs=req.get('include_dirs'))
        finally:
            os.chdir(cwd)
        return {'ok': bytes(out).hex(), 'labels': labels, 'constants': {k: enc(v) for k, v in constants.items()}}
    if op == 'chunks':
        # assemble while capturing, from outside, the per-item byte chunks handed to resolve_blobs
        captured = {}
        real = asm.resolve_blobs

        def spy(items):
            captured['chunks'] = [[it.line.number, it.line.file, bytes(it.data).hex()] for it in items]
            return real(items)
        asm.resolve_blobs = spy
        try:
            labels = {}
            constants = {}
            out = asm.assemble(req['src'], compress=bool(req.get('compress')), labels=labels, constants=constants,
                               include_dirs=req.get('include_dirs'))
        finally:
            asm.resolve_blobs = real
        return {'ok': bytes(out).hex(), 'labels': labels, 'constants': {k: enc(v) for k, v in constants.items()},
                'chunks': captured.get('chunks')}
    if op == 'lex':
        lt = asm.lex_tokens(req['line'])
        return {'ok': lt.tokens}
    if op == 'eval_twice':
        # the same expression object evaluated at the same position under two environments (labels move between passes)
        obj = dec(req['obj'])
        line = asm.Line('<t>', 1, 'x')
        r1 = obj.eval(req['position'], dec(req['env1']), line)
        r2 = obj.eval(req['position'], dec(req['env2']), line)
        return {'ok': [r1, r2]}
    if op == 'alias_lemma':
        # exhaustive over the REGISTERS literal: a constant defined as a register name evaluates to that register's
        # number, and the number is the same register for lookup_register (plain and compressed)
        from collections import ChainMap
        bad = []
        n = 0
        for name in list(asm.REGISTERS):
            if not isinstance(name, str):
                continue
            n += 1
            try:
                v = asm.Arithmetic(name).eval(None, ChainMap({}, asm.REGISTERS), asm.Line('<t>', 1, name))
            except BaseException as e:      # noqa
                bad.append([name, 'eval raises %s' % type(e).__name__])
                continue
            for comp in (False, True):
                def lk(x):
                    try:
                        return asm.lookup_register(x, compressed=comp)
                    except ValueError:
                        return 'ValueError'
                if lk(v) != lk(name):
                    bad.append([name, 'constant value %r names %r, the name itself %r (compressed=%s)' % (v, lk(v), lk(name), comp)])
        return {'ok': {'checked': n, 'bad': bad}}
    if op == 'tables':
        import hashlib
        h = hashlib.sha256()
        for name in sorted(vars(asm)):
            v = getattr(asm, name)
            if isinstance(v, dict):
                h.update(repr((name, [(repr(k), getattr(x, 'func', x).__name__ if callable(x) else repr(x)) for k, x in v.items()])).encode())
            elif isinstance(v, (set, frozenset)):
                h.update(repr((name, sorted(map(repr, v)))).encode())
            elif isinstance(v, (list, tuple)):
                h.update(repr((name, v)).encode())
        return {'ok': h.hexdigest()}
    if op == 'ping':
        return {'ok': asm.__file__, 'py': sys.version.split()[0]}
    raise ValueError('unknown op %r' % op)


def main():
    for raw in sys.stdin:
        raw = raw.strip()
        if not raw:
            continue
        try:
            req = json.loads(raw)
            try:
                resp = do(req)
            except BaseException as e:     # noqa: the interpreted program may raise anything, incl. SystemExit
                if isinstance(e, KeyboardInterrupt):
                    raise
                resp = exc_info(e)
        except Exception as e:
            resp = {'server_error': repr(e)}
        sys.stdout.write(json.dumps(resp) + '\n')
        sys.stdout.flush()


if __name__ == '__main__':
    main()
