"""Subprocess runs of the real `bronzebeard` entry point (C17 stand-in and replay)."""
import itertools
import os
import shutil
import subprocess
import tempfile

from pyvc import REPO, REPO_PY

GOOD = """\
FOO = 5
start:
    addi x8, x8, FOO
    call far
    li t0, 0x12345
    align 8
far:
    dw start
    string hi
end:
"""

# several names for one location, a label before and after an align that needs no padding, a program without labels
GOOD_SHARED = """\
_start:
reset_handler:
    addi x1, x1, 1
    addi x8, x8, 2
    align 4
after_align:
default_handler:
irq_handler:
    j _start
data_end:
_end:
"""

GOOD_NOLABELS = """\
    addi x1, x1, 1
    dw 0x12345678
"""

FAULTS = {
    'parse': 'start:\n    addi x1, x2\n    frobnicate x1\n',
    'constant': 'FOO = BAR + 1\nstart:\n    addi x1, x1, FOO\n',
    'undefined-label': 'start:\n    j nowhere\n',
    'pseudo': 'start:\n    li t0, UNDEFINED_THING\n',
    'immediate': 'start:\n    addi x1, x1, missing_name\n',
    'range': 'start:\n    addi x1, x1, 5000\n',
    'register': 'start:\n    addi x1, q9, 1\n',
    'error-directive': 'start:\n    addi x1, x1, 1\n    error stop here\n',
    'include': 'start:\n    include does_not_exist.asm\n',
    'include-missing': 'start:\n    addi x1, x1, 1\ninclude does_not_exist.asm\n',
    'include-bytes-missing': 'start:\ninclude_bytes does_not_exist.bin\n',
    'data-range': 'start:\n    db 300\n',
    'sequence': 'start:\n    bytes 1 2 zz\n',
}


def ihex_decode(text):
    """independent Intel HEX reader: returns {address: byte}"""
    mem = {}
    upper = 0
    for line in text.splitlines():
        line = line.strip()
        if not line:
            continue
        assert line[0] == ':', line
        raw = bytes.fromhex(line[1:])
        assert sum(raw) & 0xff == 0, 'checksum'
        n, addr, typ, data = raw[0], (raw[1] << 8) | raw[2], raw[3], raw[4:-1]
        assert len(data) == n
        if typ == 0:
            for i, b in enumerate(data):
                mem[upper + addr + i] = b
        elif typ == 4:
            upper = ((data[0] << 8) | data[1]) << 16
        elif typ == 2:
            upper = ((data[0] << 8) | data[1]) << 4
        elif typ == 1:
            break
    return mem


def run_cli(args, cwd):
    code = "import sys; sys.path.insert(0, %r); sys.argv[0] = 'bronzebeard'; from bronzebeard.asm import cli_main; cli_main()" % REPO
    env = dict(os.environ)
    env.pop('PYTHONPATH', None)
    env['PYTHONDONTWRITEBYTECODE'] = '1'
    p = subprocess.run([REPO_PY, '-c', code] + args, cwd=cwd, capture_output=True, text=True, env=env, timeout=60)
    return p.returncode, p.stdout, p.stderr


def api_bytes(src_path, compress, include_dirs):
    from pyvc.real import real
    r = real().assemble(src_path, compress=compress, include_dirs=include_dirs)
    return r


def cases(tier):
    opts = []
    for c, l, hx, o in itertools.product((False, True), (False, True), (None, '0x08000000', '0', 'zz'), (False, True)):
        opts.append({'compress': c, 'labels': l, 'hex': hx, 'output': o})
    for src_name, src in [('good', GOOD), ('good-shared-addresses', GOOD_SHARED), ('good-no-labels', GOOD_NOLABELS)] + sorted(FAULTS.items()):
        for op in opts:
            if tier == 'quick' and src_name != 'good' and (op['hex'] == '0' or not op['output'] or (src_name.startswith('good-') and op['hex'] == 'zz')):
                continue
            yield src_name, src, op


def run_case(d, src_name, src, op):
    """returns list of failure strings"""
    fails = []
    work = tempfile.mkdtemp(prefix='case_', dir=d)
    srcp = os.path.join(work, 'prog.asm')
    open(srcp, 'w').write(src)
    outp = os.path.join(work, 'out.bin') if op['output'] else os.path.join(work, 'bb.out')
    labp = os.path.join(work, 'labels.txt')
    hexp = outp + '.hex'
    old = {outp: b'OLD-BINARY', labp: b'OLD-LABELS', hexp: b'OLD-HEX'}
    for pth, content in old.items():
        open(pth, 'wb').write(content)
    args = [srcp]
    if op['compress']:
        args.append('-c')
    if op['output']:
        args += ['-o', outp]
    if op['labels']:
        args += ['-l', labp]
    if op['hex'] is not None:
        args += ['--hex-offset', op['hex']]
    rc, so, se = run_cli(args, work)
    api = api_bytes(srcp, op['compress'], [])
    should_succeed = 'ok' in api and op['hex'] != 'zz'
    desc = '%s %s' % (src_name, ' '.join(a if a != srcp else 'prog.asm' for a in args).replace(work + '/', ''))
    if should_succeed:
        if rc != 0:
            fails.append('%s: exit status %d on a valid run: %s' % (desc, rc, se[-200:]))
            return fails, desc
        got = open(outp, 'rb').read()
        if got != bytes.fromhex(api['ok']):
            fails.append('%s: -o file differs from the assembled program' % desc)
        if op['labels']:
            lines = open(labp).read().splitlines()
            want = ['%s 0x%08x' % (k, v) for k, v in api['labels'].items()]
            if sorted(lines) != sorted(want):      # one line per label with its final address (any order)
                fails.append('%s: -l file %r, expected one line per label %r' % (desc, lines[:6], want[:6]))
        elif open(labp, 'rb').read() != old[labp]:
            fails.append('%s: labels file touched without -l' % desc)
        if op['hex'] is not None:
            try:
                mem = ihex_decode(open(hexp).read())
            except (AssertionError, ValueError, IndexError, OSError) as e:
                mem = {'unreadable': repr(e)}
            off = int(op['hex'], 0)
            data = bytes.fromhex(api['ok'])
            want = {off + i: b for i, b in enumerate(data)}
            if mem != want:
                fails.append('%s: Intel HEX file does not decode to the program at offset %s' % (desc, op['hex']))
    else:
        if rc == 0:
            fails.append('%s: exit status 0 although the run must fail' % desc)
        for pth, content in old.items():
            if not os.path.exists(pth) or open(pth, 'rb').read() != content:
                fails.append('%s: failed run (status %d) modified %s' % (desc, rc, os.path.basename(pth)))
                break
    shutil.rmtree(work, ignore_errors=True)
    return fails, desc


def run_all(ctx, tier, limit=None):
    d = tempfile.mkdtemp(prefix='bbcli_')
    try:
        ctx.b_rule('cli: entry point in a subprocess over -c x -l x --hex-offset {absent, 0x08000000, 0, zz} x -o {given, default} x '
                   '{valid program, a fault in each pass}; pre-existing output/label/hex files; Intel HEX read back by an independent reader')
        n = 0
        for src_name, src, op in cases(tier):
            if limit and n >= limit:
                break
            n += 1
            fails, desc = run_case(d, src_name, src, op)
            ctx.b_eval('cli', desc, nontrivial=True, sample={'run': desc})
            for f in fails[:1]:
                key = 'cli:%s:%s' % (src_name if src_name == 'good' else 'fault', 'hex-offset-invalid' if op['hex'] == 'zz' and src_name == 'good' else
                                     ('writes-on-failure' if 'modified' in f else ('status' if 'status' in f else 'content')))
                ctx.violation('bounded/cli', key, f, {'args': desc, 'source': src}, confirmed=True)
    finally:
        shutil.rmtree(d, ignore_errors=True)


def replay_from_trace(ctx, d, model):
    class C:
        def __init__(self):
            self.found = []

        def b_rule(self, t):
            pass

        def b_eval(self, *a, **k):
            pass

        def violation(self, obligation, key, what, replay, confirmed=True, source='bounded'):
            self.found.append((key, what, replay))
    c = C()
    run_all(c, 'thorough')
    if not c.found:
        return None
    key, what, rep = c.found[0]
    return {'confirmed': True, 'key': key, 'what': what, 'input': rep}
