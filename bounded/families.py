"""Named suites of generated programs, sized per tier.  All of this is the BOUNDED stand-in (DESIGN 5)."""
import random

from bounded import gen

DIST_QUICK = [0, 2, 4, 8, 252, 254, 256, 258, 2044, 2046, 2048, 2050, 4092, 4094, 4096, 4098,
              -2, -4, -254, -256, -258, -2046, -2048, -2050, -4094, -4096, -4098]
DIST_THOROUGH = sorted(set(DIST_QUICK + list(range(-40, 41, 2)) + [d + k for d in (256, 2048, 4096, -256, -2048, -4096)
                                                                  for k in range(-12, 13, 2)] + [1000, -1000, 3000, -3000]))


def suite(name, tier, seed=0):
    rnd = random.Random(seed * 1000003 + hash(name) % 9973)
    thorough = tier == 'thorough'
    if name == 'dist':
        return gen.distance_programs(DIST_THOROUGH if thorough else DIST_QUICK, lead=(0, 2, 4) if thorough else (0, 2))
    if name == 'far':
        return gen.far_programs()
    if name == 'mix':
        if thorough:
            return _chain(gen.mixed_programs(2), gen.mixed_programs(3, limit=2500, rnd=rnd), gen.mixed_programs(5, limit=600, rnd=rnd))
        return _chain(gen.mixed_programs(2, alphabet=[a for a in gen.ALPHABET if a[0] not in ('str', 'ret', 'lwc', 'b3')]),
                      gen.mixed_programs(4, limit=120, rnd=rnd))
    if name == 'rand':
        return gen.random_programs(6000 if thorough else 300, rnd)
    if name == 'align':
        return gen.align_programs()
    if name == 'li':
        return gen.li_programs()
    if name == 'val':
        return gen.value_programs()
    if name == 'hilo':
        return gen.hilo_programs()
    if name == 'cedge':
        return gen.compress_edge_programs()
    if name == 'pseudo':
        return gen.pseudo_programs()
    if name == 'data':
        return gen.data_programs()
    raise KeyError(name)


def _chain(*its):
    for it in its:
        for x in it:
            yield x


def stale_label_programs():
    """label-dependent immediates whose decision-time (pessimistic) value differs from the final one"""
    P = gen.Prog
    out = []
    for m, mk in [('sw', lambda p: p.insn('sw', 9, 10, ('label', 'T'))), ('lw', lambda p: p.insn('lw', 9, 10, ('label', 'T'))),
                  ('addi4spn', lambda p: p.insn('addi', 8, 2, ('label', 'T'))), ('addi', lambda p: p.insn('addi', 8, 8, ('label', 'T'))),
                  ('lui', lambda p: p.insn('lui', 8, ('label', 'T'))), ('andi', lambda p: p.insn('andi', 8, 8, ('label', 'T'))),
                  ('lwsp', lambda p: p.insn('lw', 9, 2, ('label', 'T')))]:
        for pre in (0, 1, 2, 3):
            for al in (4, 8, 3):
                p = P('stale:%s:pre%d:al%d' % (m, pre, al))
                if pre:
                    p.data('bytes', *([1] * pre))
                p.align(al)
                p.label('T')
                mk(p)
                p.insn('addi', 8, 8, 1)
                p.align(al)
                p.label('U')
                out.append(p)
                p = P('stale2:%s:pre%d:al%d' % (m, pre, al))
                mk(p)
                if pre:
                    p.data('bytes', *([1] * pre))
                p.insn('addi', 8, 8, 1)
                p.align(al)
                p.label('T')
                p.insn('addi', 9, 9, 1)
                out.append(p)
    return out
