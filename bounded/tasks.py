"""worker-process entry points for the bounded stand-ins"""
from bounded import families, runner

RULES = {
    'dist': 'one pc-relative transfer per program (19 forms incl. explicit c.j / c.jal / c.beqz / c.bnez with a label operand x byte distances around 0, 256, 2048, 4096 both directions x lead-in), assembled in both modes; non-trivial = assembled in at least one mode; distinct by (form, distance, lead)',
    'far': 'jumps/calls across a 1 MiB align with the label 0..4096 bytes past it, forward and backward, both modes',
    'mix': 'every/sampled sequence of k items over a 20-item alphabet (instructions, compressible instructions, li of each size class, call/tail/j, branches, data of odd and even size, aligns 3/4/8, strings) with a label at every gap and every label taken as the reference target in turn',
    'align': 'align N for N in 1..17, 32, 100, 4096 at residues 0..8, N-1, N, N+1, several aligns in a row, label data words',
    'li': 'li at every carry class of %hi/%lo (45 values x 3 destination registers) and li of label arithmetic',
    'val': 'label arithmetic (%offset %position %hi %lo bare labels) in instructions and dw/dd/dh/pack data at 6 gaps, both directions',
    'cedge': 'literal operands on both sides of every RVC operand-set boundary (7.4k instructions)',
    'pseudo': 'every simple pseudo-instruction over register choices incl. x0/x2/rd=rs; pseudo-branches at 11 distances',
    'rand': 'seeded random programs of 3-12 items over a 64-item alphabet (label arithmetic in instructions and data, explicit c.* source instructions, li of every size class, aligns 2/3/4/5/8/16, transfers of every form), a label at every gap, random targets (quick 300, thorough 6000; VERIF_SEED)',
    'hilo': '%hi / %lo of literals, constants and %position expressions: 9 upper-field classes x 15 low-field classes (incl. every offset bit of c.lw / c.sw) in the unsigned and the negative spelling, plus -2**31, -1, 2**32-1; consumed by lui+addi, lui+lw/sw, jalr, li; every program must assemble',
    'data': 'data directives at the ends of every width, pack formats, ASCII strings with escapes',
}


def suite_task(ctx, suite, checks, part=None, key_prefix=''):
    progs = families.suite(suite, ctx.tier, ctx.seed)
    runner.run_programs(ctx, progs, part or suite, set(checks), rule=suite + ': ' + RULES.get(suite, ''), key_prefix=key_prefix,
                        must_assemble='must-assemble' in checks)


def stale_task(ctx, checks):
    runner.run_programs(ctx, families.stale_label_programs(), 'stale', set(checks),
                        rule='stale: label-valued immediates of compressible instructions next to aligns (decision-time value differs from the final one)')


def encoder_text_task(ctx, which, checks, spellings=('x',), only=None):
    """text front end -> encoder: legal corner tuples must assemble and decode; illegal ones must be refused with
    the assembler's own error and produce no output"""
    from bounded import gen, oracle
    from contracts.encoders import Harness, all_mnemonics
    from pyvc.real import real
    h = Harness(ctx)
    ms = [m for m in all_mnemonics(h) if (which == 'all' or (which == 'c') == m.startswith('c.')) and (only is None or m == only)]
    ctx.b_rule('enc: per mnemonic every operand at each end of its legal interval, one step inside and outside, a mis-scaled value, '
               'far outside (2**33), every register class edge; legal tuples through assemble() and decoded by the spec; '
               'illegal tuples must be refused with AssemblerError; spellings %s' % (spellings,))
    r = real()
    for p, legal in gen.encoder_programs(ms, spellings):
        src = p.source()
        for compress in ((False, True) if legal else (False,)):
            rs = r.chunks(src, compress)
            ctx.b_eval('enc', p.tag, nontrivial=True, sample={'tag': p.tag, 'source': src[:200]})
            m = p.tag.split(':')[1]
            if legal:
                if 'ok' not in rs:
                    if 'accept' in checks:
                        ctx.violation('bounded/enc/legal-operands-refused', '%s:refuses-legal' % m,
                                      '%s: legal operands refused: %s: %s' % (p.tag, rs.get('exc'), rs.get('msg', '')[:200]),
                                      {'source': src, 'observed': rs}, confirmed=True)
                    continue
                fails = []
                oracle.check_program(p.recs, rs, compress, fails)
                mine = [f for f in fails if f['check'] in checks]
                if mine:
                    ctx.violation('bounded/enc/%s' % mine[0]['check'], '%s:wrong-word' % m,
                                  '%s: %s' % (p.tag, mine[0]['msg'][:300]), {'source': src, 'fails': mine[:4]}, confirmed=True)
            else:
                if 'ok' in rs and 'reject' in checks:
                    ctx.violation('bounded/enc/illegal-operands-accepted', '%s:accepts-illegal' % m,
                                  '%s: unrepresentable operand accepted, output %s' % (p.tag, rs['ok'][:16]),
                                  {'source': src, 'observed': rs['ok'][:64]}, confirmed=True)
                elif 'ok' not in rs and rs.get('exc') != 'AssemblerError' and 'own-error' in checks:
                    ctx.violation('bounded/enc/raw-exception', '%s:raises-%s' % (m, rs.get('exc')),
                                  '%s: refused with %s instead of the assembler error' % (p.tag, rs.get('exc')),
                                  {'source': src, 'observed': rs}, confirmed=True)


def halfword_task(ctx):
    """all 65,536 halfwords: classified by the specification; each legal non-hint non-reserved one must be produced
    by the real encoder from its canonical operands (exhaustive, concrete)"""
    from spec import rvc
    from pyvc.real import real
    from contracts.encoders import _real_encode
    r = real()
    ctx.b_rule('halfwords: every h in 0..65535 classified by spec/rvc.py; legal forms re-encoded by the real encoder (exhaustive)')
    n_legal = 0
    for h in range(65536):
        c = rvc.classify(h)
        if not isinstance(c, tuple):
            ctx.bounded['evaluations'] += 1
            continue
        n_legal += 1
        obs = _real_encode(r, c[0], list(c[1]))
        ctx.b_eval('halfwords', h, nontrivial=True, sample={'h': '%04x' % h, 'm': c[0], 'ops': list(c[1])} if h % 4099 == 0 else None)
        if obs.get('ok') != h:
            ctx.violation('bounded/halfwords/legal-halfword-not-produced', '%s:legal-halfword-not-produced' % c[0],
                          'halfword 0x%04x = %s%r: the real encoder gives %r' % (h, c[0], c[1], obs),
                          {'halfword': h, 'm': c[0], 'args': list(c[1]), 'observed': obs}, confirmed=True)
    ctx.bounded['parts'].setdefault('halfwords', {'evaluations': 0, 'distinct': set()})['legal'] = n_legal


def split_task(ctx, suite, every=4):
    """the same program spread over included files (line numbers restart in each file, files in a subdirectory and next to
    the main file) must assemble to the bytes, labels and constants of the single-source program (C14 splice; also exposes
    state that leaks between files or between the passes of one run)"""
    import os
    import random
    import shutil
    import tempfile
    from bounded import families
    from pyvc.real import real
    r = real()
    rnd = random.Random(ctx.seed * 17 + 3)
    ctx.b_rule('split: every %dth program of suite %s cut at 1-3 random points into main.asm + included files (include lines at column 0, '
               'parts next to the main file and in a subdirectory), both modes, compared with the single-source assembly' % (every, suite))
    root = tempfile.mkdtemp(prefix='bbsplit_')
    try:
        for n, p in enumerate(families.suite(suite, 'quick', ctx.seed)):
            if n % every:
                continue
            lines = [rec['text'] for rec in p.recs]
            if len(lines) < 4 or len(p.source()) > 100000:
                continue
            work = tempfile.mkdtemp(prefix='s_', dir=root)
            os.makedirs(os.path.join(work, 'parts'))
            cuts = sorted(rnd.sample(range(1, len(lines)), min(len(lines) - 1, rnd.randint(1, 3))))
            segs = [lines[a:b] for a, b in zip([0] + cuts, cuts + [len(lines)])]
            main = []
            for k, seg in enumerate(segs):
                if k % 2 == 0:
                    main += seg
                else:
                    name = ('parts/p%d.asm' % k) if k % 4 == 1 else ('q%d.asm' % k)
                    open(os.path.join(work, name), 'w').write('\n'.join(seg) + '\n')
                    main.append('include %s' % name)
            mp = os.path.join(work, 'main.asm')
            open(mp, 'w').write('\n'.join(main) + '\n')
            for compress in (False, True):
                a = r.assemble(p.source(), compress=compress)
                b = r.assemble(mp, compress=compress, cwd='/')
                ctx.b_eval('split', (suite, p.tag, compress), nontrivial='ok' in a, sample={'tag': p.tag, 'cuts': cuts})
                same = (a.get('ok') == b.get('ok') and a.get('labels') == b.get('labels') and a.get('constants') == b.get('constants')) \
                    if 'ok' in a else ('ok' not in b)
                if not same:
                    ctx.violation('bounded/split', 'split:%s' % ('bytes' if a.get('ok') != b.get('ok') else 'tables'),
                                  '%s cut at %r (compress=%s): assembled from included files %s, from one source %s' % (
                                      p.tag, cuts, compress, str(b.get('ok') or b.get('exc'))[:60], str(a.get('ok') or a.get('exc'))[:60]),
                                  {'single_source': p.source()[:3000], 'main': '\n'.join(main), 'parts': {('p%d' % k): segs[k] for k in range(1, len(segs), 2)},
                                   'compress': compress}, confirmed=True)
                    break
            shutil.rmtree(work, ignore_errors=True)
    finally:
        shutil.rmtree(root, ignore_errors=True)
