"""Runs the REAL bronzebeard/dfu.py cli_main against a simulated DfuSe device.  Executed under /venv/bin/python
as a subprocess:  dfu_sim.py <json scenario>  -> prints a json result.

The device model is the ASSUMED contract of DESIGN 3.7 (DFU 1.1 section 6 / A, ST AN3156): DNLOAD 0x41+addr erases
a page, 0x21+addr sets the pointer, wValue=2 data programs at the pointer; after each DNLOAD the device is busy
for a scripted number of GETSTATUS polls (each reporting dfuDNBUSY with a poll time), then completes with a
scripted status.  Any non-GETSTATUS request while busy is a protocol violation."""
import io
import json
import os
import sys
import types

REPO = os.environ.get('BRONZEBEARD_REPO', '/repo')


class Device:
    def __init__(self, sc):
        self.sc = sc
        self.flash = {}
        self.erased = []
        self.written = []
        self.ptr = None
        self.busy = 0
        self.pending = None
        self.state = 10 if sc.get('start_error') else 2
        self.status = sc.get('start_status', 0 if not sc.get('start_error') else 14)
        self.requests = []
        self.violations = []
        self.sleeps = []
        self.polls_requested = []
        self.op_index = 0
        self.serial_number = sc.get('serial', 'ab䈴').encode('utf-8', 'ignore').decode('utf-16-le', 'ignore') if False else None
        self.page_count = sc.get('page_count', 128)
        code = {128: 'B', 64: '8', 32: '6', 16: '4'}.get(self.page_count, 'Z')
        sn = 'GD' + code + 'X'
        # the real device mis-encodes: bytes of the utf-8 text presented as utf-16-le
        self.serial_number = sn.encode('utf-8').decode('utf-16-le')

    def _schedule(self, key):
        s = self.sc.get('schedule', {})
        ent = s.get(str(self.op_index), s.get('default', {}))
        return ent.get('busy_polls', 0), ent.get('poll_ms', 0), ent.get('status', 0)

    def ctrl_transfer(self, bmRequestType, bRequest, wValue=0, wIndex=0, data_or_wLength=None, timeout=None):
        self.requests.append([bmRequestType, bRequest, wValue, data_or_wLength.hex() if isinstance(data_or_wLength, (bytes, bytearray)) else data_or_wLength])
        if bRequest == 3:      # GETSTATUS
            if self.busy > 0:
                self.busy -= 1
                ms = self.cur_poll_ms
                self.polls_requested.append(ms)
                return bytes([0, ms & 0xff, (ms >> 8) & 0xff, (ms >> 16) & 0xff, 4, 0])
            if self.pending is not None:
                kind, arg, status = self.pending
                self.pending = None
                if status == 0:
                    if kind == 'erase':
                        self.erased.append(arg)
                        for a in range(arg, arg + 1024):
                            self.flash[a] = 0xff
                    elif kind == 'setaddr':
                        self.ptr = arg
                    elif kind == 'write':
                        base = self.ptr
                        self.written.append([base, len(arg)])
                        if base is None or (base - (base % 1024)) not in self.erased:
                            self.violations.append('page at %r written before it was erased' % (base,))
                        for i, b in enumerate(arg):
                            # NOR flash: programming can only clear bits; a cell that was not erased first keeps the AND with
                            # what an earlier firmware left there (0x3c everywhere)
                            self.flash[base + i] = self.flash.get(base + i, 0x3c) & b
                    self.state, self.status = 5, 0
                else:
                    self.state, self.status = 10, status
            self.polls_requested.append(0)
            return bytes([self.status, 0, 0, 0, self.state, 0])
        if self.busy > 0 or self.pending is not None and False:
            self.violations.append('request %d issued while the device is busy' % bRequest)
        if bRequest == 4:      # CLRSTATUS
            self.state, self.status = 2, 0
            return 0
        if bRequest == 1:      # DNLOAD
            if self.state == 10 and self.sc.get('lenient'):
                # a bootloader that reports the failed operation once and then takes further requests (the property speaks of
                # "the device reports an error status for any erase or write", not of what the device does afterwards)
                self.state, self.status = 5, 0
            if self.state == 10:
                # DFU 1.1 A.2.11: in dfuERROR every request but GETSTATUS/GETSTATE/CLRSTATUS is stalled
                raise OSError('USBError: [Errno 32] Pipe error (request stalled in dfuERROR)')
            data = bytes(data_or_wLength)
            busy, ms, status = self._schedule(self.op_index)
            self.op_index += 1
            self.busy, self.cur_poll_ms = busy, ms
            if wValue == 0 and len(data) == 5 and data[0] == 0x41:
                self.pending = ('erase', int.from_bytes(data[1:], 'little'), status)
            elif wValue == 0 and len(data) == 5 and data[0] == 0x21:
                self.pending = ('setaddr', int.from_bytes(data[1:], 'little'), status)
            elif wValue == 2:
                self.pending = ('write', data, status)
            else:
                self.violations.append('unexpected DNLOAD wValue=%r len=%d' % (wValue, len(data)))
            self.state = 3
            return len(data)
        self.violations.append('unexpected request %r' % bRequest)
        return 0


def main():
    sc = json.loads(sys.argv[1])
    dev = Device(sc) if not sc.get('no_device') else None
    usb = types.ModuleType('usb')
    usb.core = types.ModuleType('usb.core')
    usb.backend = types.ModuleType('usb.backend')
    usb.backend.libusb1 = types.ModuleType('usb.backend.libusb1')
    usb.backend.libusb1.get_backend = lambda **kw: object()
    usb.core.find = lambda **kw: dev
    sys.modules.update({'usb': usb, 'usb.core': usb.core, 'usb.backend': usb.backend, 'usb.backend.libusb1': usb.backend.libusb1})
    import time
    sleeps = []
    time.sleep = lambda s: sleeps.append(s)
    sys.path.insert(0, REPO)
    import bronzebeard.dfu as dfu
    assert os.path.realpath(dfu.__file__).startswith(os.path.realpath(REPO) + os.sep)
    fw = bytes.fromhex(sc['firmware_hex']) if 'firmware_hex' in sc else bytes((i * 7 + 3) & 0xff for i in range(sc['length']))
    import tempfile
    d = tempfile.mkdtemp(prefix='dfu_')
    path = os.path.join(d, 'fw.bin')
    open(path, 'wb').write(fw)
    sys.argv = ['bronzebeard-dfu', sc.get('device_id', '28e9:0189'), path]
    out = io.StringIO()
    old = sys.stdout
    sys.stdout = out
    res = {'exit': 0, 'exc': None}
    try:
        dfu.cli_main()
    except SystemExit as e:
        res['exit'] = e.code if isinstance(e.code, int) else (0 if e.code is None else 1)
        res['exit_msg'] = None if isinstance(e.code, int) else str(e.code)
    except BaseException as e:      # noqa
        res['exit'] = 1
        res['exc'] = type(e).__name__
        res['exc_msg'] = str(e)[:200]
    finally:
        sys.stdout = old
        import shutil
        shutil.rmtree(d, ignore_errors=True)
    res['stdout_tail'] = out.getvalue()[-300:]
    res['done_printed'] = 'done!' in out.getvalue()
    res['sleeps'] = sleeps
    if dev is not None:
        res.update(requests=len(dev.requests), non_status_requests=sum(1 for r in dev.requests if r[1] != 3),
                   erased=dev.erased, written=dev.written, violations=dev.violations, polls_requested=dev.polls_requested,
                   flash_ok=None, first_requests=dev.requests[:6])
        pages = (len(fw) + 1023) // 1024
        image = fw + b'\x00' * (pages * 1024 - len(fw))
        want = {0x08000000 + i: b for i, b in enumerate(image)}
        # the flash held an older image (0x3c in every cell) before the run
        res['flash_ok'] = all(dev.flash.get(a, 0x3c) == b for a, b in want.items()) and not (set(dev.flash) - set(want))
        res['flash_extra'] = sorted(set(dev.flash) - set(want))[:4]
        res['flash_first_diff'] = next((hex(a) for a, b in want.items() if dev.flash.get(a, 0x3c) != b), None)
        res['pages'] = pages
    print(json.dumps(res))


if __name__ == '__main__':
    main()
