"""Runs generated programs through the REAL assembler (both modes) and the independent oracle."""
from bounded import oracle
from pyvc.real import real


def run_programs(ctx, progs, part, checks, rule=None, compare=True, must_assemble=False, max_report=25, key_prefix=''):
    """checks: set of oracle check names that are violations of the calling property"""
    r = real()
    reported = 0
    stats = {'programs': 0, 'refused': 0, 'raw_exception': 0, 'fails': 0}
    if rule:
        ctx.b_rule(rule)
    for p in progs:
        src = p.source()
        stats['programs'] += 1
        res = {}
        lays = {}
        fails = []
        for compress in (False, True):
            rs = r.chunks(src, compress)
            res[compress] = rs
            if 'ok' in rs:
                lays[compress] = oracle.check_program(p.recs, rs, compress, fails, want=None)
            elif rs.get('exc') == 'AssemblerError':
                stats['refused'] += 1
            else:
                stats['raw_exception'] += 1
        if compare and False in lays and True in lays:
            oracle.compare_modes(p.recs, lays[False], lays[True], fails)
        if 'ok' in res[False] and 'ok' not in res[True]:
            ln = (res[True].get('line') or [None, None])[1]
            rec = next((r_ for r_ in p.recs if r_['ln'] == ln), None)
            fails.append({'check': 'accept', 'line': rec and rec['text'], 'ln': ln, 'compress': True, 'rec': rec,
                          'exc': res[True].get('exc'), 'emsg': res[True].get('msg', ''),
                          'msg': 'assembles without compression but with it fails: %s: %s' % (res[True].get('exc'), res[True].get('msg'))})
        if any(r_.get('must_refuse') for r_ in p.recs):
            for compress in (False, True):
                if 'ok' in res[compress]:
                    rec = next(r_ for r_ in p.recs if r_.get('must_refuse'))
                    fails.append({'check': 'data', 'line': rec['text'], 'ln': rec['ln'], 'compress': compress,
                                  'msg': 'a value that does not fit its width is accepted and emitted as %s instead of refused' % res[compress]['ok'][:32]})
                    break
            lays = {}
        if must_assemble and 'ok' not in res[False]:
            fails.append({'check': 'must-assemble', 'line': None, 'ln': None, 'compress': False,
                          'msg': 'valid program refused: %s: %s' % (res[False].get('exc'), res[False].get('msg'))})
        nontrivial = any(k in lays for k in (False, True))
        ctx.b_eval(part, p.tag, nontrivial=nontrivial, sample={'tag': p.tag, 'source': src[:300]})
        mine = [f for f in fails if f['check'] in checks]
        if mine:
            stats['fails'] += 1
            f0 = mine[0]
            key = '%s%s:%s' % (key_prefix, f0['check'], finding_key(p, f0))
            if reported < max_report:
                reported += 1
                ctx.violation('bounded/%s/%s' % (part, f0['check']), key,
                              '%s [%s] %s' % (p.tag, 'compress' if f0['compress'] else 'no-compress', f0['msg'][:300]),
                              {'source': src if len(src) < 20000 else src[:20000] + '...', 'tag': p.tag,
                               'fails': [{k: v for k, v in f.items() if k != 'rec'} for f in mine[:5]],
                               'how': 'assemble(source, compress=%s) on the real code, then bounded/oracle.check_program' % f0['compress']},
                              confirmed=True, source='bounded')
    ctx.bounded['parts'].setdefault(part, {'evaluations': 0, 'distinct': set()}).update(
        {k: v for k, v in stats.items() if k not in ('programs',)})
    return stats


RVC_MSG = ('constraint failed', '5-bit', '6-bit', '8-bit MO4', '8-bit MO2', '11-bit MO2', 'compressed register')


def finding_key(p, f):
    """stable signature of a failing input: the line's item kind and the check, not the whole program"""
    if f['check'] == 'accept':
        rec = f.get('rec')
        if f.get('exc') != 'AssemblerError':
            return 'raw-%s' % f.get('exc')
        literal = rec is None or (rec.get('kind') in ('insn', 'cinsn') and rec.get('literal', True)) or \
            (rec.get('kind') in ('li', 'data', 'pack') and all(isinstance(v, int) for v in rec.get('values', [rec.get('value')])))
        if literal:
            return 'literal:%s' % ((f.get('line') or 'program').split(' ')[0])
        mn = (f.get('line') or 'program').split(' ')[0].lower()
        em = f.get('emsg', '')
        how = 'odd' if ('multiple of 2' in em or 'muliple of 2' in em) else ('scale' if 'multiple of' in em else
                                                                            ('range' if 'must be between' in em else
                                                                             ('zero' if 'must not be' in em else 'other')))
        if any(m in em for m in RVC_MSG):
            return 'label-immediate:rvc-form-chosen-on-stale-label-value:%s:%s' % (mn, how)
        return 'label-immediate:distance-changed-by-align-padding:%s:%s' % (mn, how)
    line = (f.get('line') or '').split(' ')[0]
    tag = p.tag.split(':')
    return '%s:%s' % (line or 'program', ':'.join(tag[:2]))
