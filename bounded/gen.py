"""Program generator for the bounded stand-ins (labelled bounded; never counted as proved).
Every line of a generated program is a record that states, independently of the assembler, what the line
means (see bounded/oracle.py)."""
import itertools
import random
import struct


def reg(n):
    return 'x%d' % n


def is_literal(v):
    """an operand that does not depend on a label: numbers, constants, %hi / %lo / sums of those"""
    if isinstance(v, int):
        return True
    if v[0] == 'const':
        return True
    if v[0] in ('hi', 'lo'):
        return is_literal(v[1])
    if v[0] in ('add', 'sub'):
        return is_literal(v[1]) and is_literal(v[2])
    return False


def vtext(v):
    if isinstance(v, int):
        return str(v)
    k = v[0]
    if k == 'label':
        return v[1]
    if k == 'offset':
        return '%%offset(%s)' % v[1]
    if k == 'position':
        return '%%position(%s, %s)' % (v[1], vtext(v[2]))
    if k == 'hi':
        return '%%hi(%s)' % vtext(v[1])
    if k == 'lo':
        return '%%lo(%s)' % vtext(v[1])
    if k == 'const':
        return v[1]
    if k == 'add':
        return '%s + %s' % (vtext(v[1]), vtext(v[2]))
    if k == 'sub':
        return '%s - %s' % (vtext(v[1]), vtext(v[2]))
    raise KeyError(k)


from spec import rv32, rvc  # noqa: E402

PSEUDO_BRANCH = {   # docs/instruction_reference.rst, "Pseudo Instructions"
    'beqz': lambda rs: ('beq', rs, 0), 'bnez': lambda rs: ('bne', rs, 0), 'blez': lambda rs: ('bge', 0, rs),
    'bgez': lambda rs: ('bge', rs, 0), 'bltz': lambda rs: ('blt', rs, 0), 'bgtz': lambda rs: ('blt', 0, rs),
}
PSEUDO_BRANCH2 = {
    'bgt': lambda rs, rt: ('blt', rt, rs), 'ble': lambda rs, rt: ('bge', rt, rs),
    'bgtu': lambda rs, rt: ('bltu', rt, rs), 'bleu': lambda rs, rt: ('bgeu', rt, rs),
}
PSEUDO_SIMPLE = {   # name -> (operand count, expansion)
    'nop': (0, lambda: [('addi', (0, 0, 0))]),
    'mv': (2, lambda rd, rs: [('addi', (rd, rs, 0))]),
    'not': (2, lambda rd, rs: [('xori', (rd, rs, -1))]),
    'neg': (2, lambda rd, rs: [('sub', (rd, 0, rs))]),
    'seqz': (2, lambda rd, rs: [('sltiu', (rd, rs, 1))]),
    'snez': (2, lambda rd, rs: [('sltu', (rd, 0, rs))]),
    'sltz': (2, lambda rd, rs: [('slt', (rd, rs, 0))]),
    'sgtz': (2, lambda rd, rs: [('slt', (rd, 0, rs))]),
    'jr': (1, lambda rs: [('jalr', (0, rs, 0))]),
    'jalr': (1, lambda rs: [('jalr', (1, rs, 0))]),
    'ret': (0, lambda: [('jalr', (0, 1, 0))]),
    'fence': (0, lambda: [('fence', (0b1111, 0b1111))]),
}


class Style:
    """documented spelling freedoms, chosen independently per line / operand from a seeded generator (C13)"""

    def __init__(self, rnd=None, fixed=None):
        self.rnd = rnd
        self.fixed = fixed or {}

    def pick(self, what, options):
        if what in self.fixed:
            return self.fixed[what]
        if self.rnd is None:
            return options[0]
        return self.rnd.choice(options)


CURRENT_STYLE = None


class Prog:
    def __init__(self, tag='', style=None):
        self.recs = []
        self.tag = tag
        self.style = style if style is not None else CURRENT_STYLE

    def add(self, text, **rec):
        st = self.style
        if st is not None and rec.get('kind') != 'comment':
            # blank lines / whole-line comments before the item
            for _ in range(st.pick('blank', [0, 0, 1, 2])):
                self.recs.append({'text': st.pick('blankline', ['', '   ', '# a comment', '    # indented comment', '\t']), 'kind': 'comment',
                                  'ln': len(self.recs) + 1})
            if rec.get('kind') not in ('string',):
                text = st.pick('indent', ['', '  ', '    ', '\t', ' \t ']) + text
                text = text + st.pick('trail', ['', '', ' # trailing', '#x', '   ', '\t# t'])
            else:
                text = st.pick('indent', ['', '  ', '\t']) + text
        rec['text'] = text
        rec['ln'] = len(self.recs) + 1
        self.recs.append(rec)
        return self

    # style-aware pieces
    def r(self, n):
        st = self.style
        how = st.pick('reg', ['x', 'abi', 'num']) if st else 'x'
        return _regtext(n, how)

    def i(self, v):
        st = self.style
        how = st.pick('int', ['dec', 'hex', 'bin']) if st else 'dec'
        if how == 'hex':
            return ('-' if v < 0 else '') + hex(abs(v))
        if how == 'bin':
            return ('-' if v < 0 else '') + bin(abs(v))
        return str(v)

    def v(self, v):
        if isinstance(v, int):
            return self.i(v)
        k = v[0]
        if k == 'position':
            return '%%position(%s, %s)' % (v[1], self.v(v[2]))
        if k in ('hi', 'lo'):
            return '%%%s(%s)' % (k, self.v(v[1]))
        if k in ('add', 'sub'):
            return '%s %s %s' % (self.v(v[1]), '+' if k == 'add' else '-', self.v(v[2]))
        return vtext(v)

    def j(self, m, parts):
        st = self.style
        if not parts:
            return m
        seps = [st.pick('sep', [', ', ' ', ',', ' , ', '\t', ',  ']) if st else ', ' for _ in parts[1:]]
        out = parts[0]
        for sp, x in zip(seps, parts[1:]):
            out += sp + x
        return m + (st.pick('msep', [' ', '  ', '\t']) if st else ' ') + out

    def source(self):
        return '\n'.join(r['text'] for r in self.recs) + '\n'

    # ---- line constructors --------------------------------------------
    def label(self, name):
        return self.add('%s:' % name, kind='label', name=name)

    def const(self, name, value):
        return self.add('%s = %s' % (name, self.i(value)), kind='const', name=name, value=value)

    def comment(self, text=''):
        return self.add(text, kind='comment')

    def insn(self, m, *ops, text=None):
        roles = rv32.roles(m)
        parts = []
        for r, v in zip(roles, ops):
            if r in ('rd', 'rs1', 'rs2'):
                parts.append(self.r(v))
            elif r in ('shamt', 'uimm'):
                parts.append(str(v))
            else:
                parts.append(self.v(v))
        literal = all(is_literal(v) for v in ops)
        fmt = rv32.TABLE[m][0]
        single = len(ops) == 3 and (isinstance(ops[2], int) or ops[2][0] in ('label', 'const'))      # one-token offsets only
        if text is None and self.style is not None and single and m in ('jalr', 'lb', 'lh', 'lw', 'lbu', 'lhu', 'sb', 'sh', 'sw') \
                and self.style.pick('mem', ['plain', 'paren']) == 'paren':
            # imm(reg) spelling: loads/jalr  rd, imm(rs1) ; stores  rs2, imm(rs1)
            if fmt == 'S':
                text = self.j(m, [parts[1], '%s(%s)' % (parts[2], parts[0])])
            else:
                text = self.j(m, [parts[0], '%s(%s)' % (parts[2], parts[1])])
        return self.add(text or self.j(m, parts), kind='insn', m=m, ops=tuple(ops), literal=literal)

    def cinsn(self, m, *ops):
        parts = []
        for k, v in zip(rvc.kinds(m), ops):
            parts.append(self.r(v) if k in ('r', "r'") else self.v(v))
        text = None
        if self.style is not None and m in ('c.lw', 'c.sw') and self.style.pick('mem', ['plain', 'paren']) == 'paren':
            text = self.j(m, [parts[1], '%s(%s)' % (parts[2], parts[0])]) if m == 'c.sw' else self.j(m, [parts[0], '%s(%s)' % (parts[2], parts[1])])
        return self.add(text or self.j(m, parts), kind='cinsn', m=m, ops=tuple(ops), c_source=True)

    def branch(self, m, rs1, rs2, target):
        return self.add(self.j(m, [self.r(rs1), self.r(rs2), target]), kind='transfer', target=target,
                        cond=(m, rs1, rs2), link=())

    def pbranch(self, name, target, *rs):
        cond = (PSEUDO_BRANCH[name](*rs) if name in PSEUDO_BRANCH else PSEUDO_BRANCH2[name](*rs))
        return self.add(self.j(name, [self.r(r) for r in rs] + [target]), kind='transfer', target=target,
                        cond=cond, link=())

    def jal(self, rd, target):
        return self.add(self.j('jal', [self.r(rd), target]), kind='transfer', target=target, cond=None, link=(rd,) if rd else ())

    def jump(self, name, target):
        # j / jal (pseudo) / call / tail
        rec = dict(kind='transfer', target=target, cond=None)
        if name == 'j':
            rec['link'] = ()
        elif name in ('jal', 'call'):
            rec['link'] = (1,)
        return self.add(self.j(name, [target]), **rec)

    def ctransfer(self, m, target, rs=None):
        """a compressed jump / branch written out in the source with a label operand"""
        if m in ('c.j', 'c.jal'):
            return self.add(self.j(m, [target]), kind='transfer', target=target, cond=None, link=(1,) if m == 'c.jal' else (), c_source=True)
        return self.add(self.j(m, [self.r(rs), target]), kind='transfer', target=target,
                        cond=('beq' if m == 'c.beqz' else 'bne', rs, 0), link=(), c_source=True)

    def li(self, rd, value):
        return self.add(self.j('li', [self.r(rd), self.v(value)]), kind='li', rd=rd, value=value, literal=is_literal(value))

    def pseudo(self, name, *regs):
        n, f = PSEUDO_SIMPLE[name]
        return self.add(self.j(name, [self.r(r) for r in regs]), kind='expand', expect=f(*regs))

    def data(self, d, *values):
        return self.add(self.j(d, [self.v(v) for v in values]), kind='data', d=d, values=list(values))

    def pack(self, fmt, value):
        return self.add(self.j('pack', [fmt, self.v(value)]), kind='pack', fmt=fmt, value=value)

    def string(self, text, expect=None):
        return self.add('string %s' % text, kind='string', bytes=text.encode('utf-8') if expect is None else expect)

    def align(self, n):
        return self.add(self.j('align', [self.i(n)]), kind='align', n=n)

    def filler(self, nbytes):
        """nbytes of data in one line"""
        if nbytes == 0:
            return self
        return self.add('string %s' % ('a' * nbytes), kind='string', bytes=b'a' * nbytes)


# ---------------------------------------------------------------------------
# families

TRANSFER_FORMS = [
    ('beq', lambda p, t: p.branch('beq', 5, 6, t)),
    ('bne-c', lambda p, t: p.branch('bne', 9, 0, t)),          # eligible for c.bnez
    ('beq-c', lambda p, t: p.branch('beq', 8, 0, t)),
    ('bltu', lambda p, t: p.branch('bltu', 31, 1, t)),
    ('bgez', lambda p, t: p.pbranch('bgez', t, 10)),
    ('beqz-c', lambda p, t: p.pbranch('beqz', t, 15)),
    ('bgt', lambda p, t: p.pbranch('bgt', t, 11, 12)),
    ('bleu', lambda p, t: p.pbranch('bleu', t, 3, 4)),
    ('jal-x5', lambda p, t: p.jal(5, t)),
    ('jal-x1', lambda p, t: p.jal(1, t)),
    ('jal-x0', lambda p, t: p.jal(0, t)),
    ('j', lambda p, t: p.jump('j', t)),
    ('jal', lambda p, t: p.jump('jal', t)),
    ('call', lambda p, t: p.jump('call', t)),
    ('tail', lambda p, t: p.jump('tail', t)),
    ('c.j', lambda p, t: p.ctransfer('c.j', t)),
    ('c.jal', lambda p, t: p.ctransfer('c.jal', t)),
    ('c.beqz', lambda p, t: p.ctransfer('c.beqz', t, 8)),
    ('c.bnez', lambda p, t: p.ctransfer('c.bnez', t, 15)),
]


def gap(p, nbytes):
    """nbytes between two points, built from an align when large (keeps the source small)"""
    if nbytes <= 0:
        return
    if nbytes < 5000:
        p.filler(nbytes)
        return
    # emit filler to reach a multiple of a big alignment, then pad
    p.add('string %s' % ('b' * 3), kind='string', bytes=b'bbb')
    p.add('# big gap', kind='comment')
    p.recs[-1]['gap'] = True
    p.filler(nbytes - 3)


def distance_programs(distances, forms=None, lead=(0, 2, 4)):
    """one transfer per program, target at a given byte distance (forward: from the transfer; backward: to a label
    `dist` bytes before it).  Large distances use a long `string` filler."""
    forms = forms or TRANSFER_FORMS
    for (fname, f), d, pre in itertools.product(forms, distances, lead):
        p = Prog('dist:%s:%d:lead%d' % (fname, d, pre))
        if pre:
            p.filler(pre)
        if d >= 0:
            f(p, 'T')
            # the transfer itself occupies 2..8 bytes; put the label d bytes after the START of the transfer when
            # possible by filling d - 8 .. d bytes is not needed: any layout is checked by the oracle
            p.filler(d)
            p.label('T')
            p.insn('addi', 1, 1, 1)
        else:
            p.label('T')
            p.filler(-d)
            f(p, 'T')
        yield p


def mk_big(p, nbytes):
    """nbytes of zero padding via align (cheap for ~1 MiB)"""
    p.align(nbytes)


def far_programs():
    """transfers across ~1 MiB built with a large align; exercises near/far selection of call/tail and the range
    limits of jal/branches (which must be refused, not wrapped, when out of range)"""
    for fname, f in TRANSFER_FORMS:
        if fname.startswith('b'):
            continue
        for extra in (0, 2, 4, 6, 4092, 4096, 2048, 2044, 2052):
            for pre in (0, 4):
                p = Prog('far:%s:+%d:lead%d' % (fname, extra, pre))
                if pre:
                    p.insn('addi', 1, 1, 1)
                f(p, 'T')
                p.align(1 << 20)
                p.filler(extra)
                p.label('T')
                p.insn('addi', 2, 2, 2)
                yield p
                p = Prog('farback:%s:+%d:lead%d' % (fname, extra, pre))
                if pre:
                    p.insn('addi', 1, 1, 1)
                p.label('T')
                p.insn('addi', 2, 2, 2)
                p.align(1 << 20)
                p.filler(extra)
                f(p, 'T')
                yield p


ALPHABET = [
    ('i4', lambda p, L: p.insn('addi', 5, 6, 100)),                 # not compressible
    ('ic', lambda p, L: p.insn('addi', 8, 8, 4)),                   # compressible (c.addi)
    ('li1', lambda p, L: p.li(7, 17)),                              # 1-instruction li
    ('li2', lambda p, L: p.li(7, 0x12345)),                         # 2-instruction li
    ('liL', lambda p, L: p.li(7, ('label', L))),                    # li of a label
    ('call', lambda p, L: p.jump('call', L)),
    ('tail', lambda p, L: p.jump('tail', L)),
    ('j', lambda p, L: p.jump('j', L)),
    ('beqz', lambda p, L: p.pbranch('beqz', L, 8)),
    ('bne', lambda p, L: p.branch('bne', 5, 6, L)),
    ('b1', lambda p, L: p.data('bytes', 1)),
    ('b3', lambda p, L: p.data('bytes', 1, 2, 3)),
    ('dwL', lambda p, L: p.data('dw', ('label', L))),
    ('al4', lambda p, L: p.align(4)),
    ('al3', lambda p, L: p.align(3)),
    ('al8', lambda p, L: p.align(8)),
    ('str', lambda p, L: p.string('hey')),
    ('lwc', lambda p, L: p.insn('lw', 8, 9, 4)),
    ('mv', lambda p, L: p.pseudo('mv', 10, 11)),
    ('ret', lambda p, L: p.pseudo('ret')),
]


ALPHABET_EXTRA = [
    ('luiL', lambda p, L: p.insn('lui', 6, ('hi', ('label', L)))),
    ('addiLo', lambda p, L: p.insn('addi', 6, 6, ('lo', ('label', L)))),
    ('auipcOff', lambda p, L: p.insn('auipc', 7, ('hi', ('offset', L)))),
    ('dwPos', lambda p, L: p.data('dw', ('position', L, 0x08000000))),
    ('ddL', lambda p, L: p.data('dd', ('label', L))),
    ('packOff', lambda p, L: p.pack('<i', ('offset', L))),
    ('jalx5', lambda p, L: p.jal(5, L)),
    ('jalx1', lambda p, L: p.jal(1, L)),
    ('bgtu', lambda p, L: p.pbranch('bgtu', L, 12, 13)),
    ('bnezc', lambda p, L: p.pbranch('bnez', L, 9)),
    ('beqc', lambda p, L: p.branch('beq', 15, 0, L)),
    ('liNeg', lambda p, L: p.li(10, -2049)),
    ('liBig', lambda p, L: p.li(2, 0xfffff800)),
    ('liPos', lambda p, L: p.li(11, ('position', L, 0x20000000))),
    ('caddi', lambda p, L: p.cinsn('c.addi', 8, -3)),
    ('clwsp', lambda p, L: p.cinsn('c.lwsp', 5, 8)),
    ('cmv', lambda p, L: p.cinsn('c.mv', 10, 11)),
    ('b2', lambda p, L: p.data('bytes', 9, 8)),
    ('sh1', lambda p, L: p.data('shorts', -2)),
    ('al2', lambda p, L: p.align(2)),
    ('al5', lambda p, L: p.align(5)),
    ('al16', lambda p, L: p.align(16)),
    ('neg', lambda p, L: p.pseudo('neg', 8, 9)),
    ('slli', lambda p, L: p.insn('slli', 9, 9, 3)),
    ('and', lambda p, L: p.insn('and', 8, 8, 9)),
    ('swsp', lambda p, L: p.insn('sw', 2, 8, 12)),
    ('lui1', lambda p, L: p.insn('lui', 9, 1)),
    ('str7', lambda p, L: p.string('seven77')),
    ('cjL', lambda p, L: p.ctransfer('c.j', L)),
    ('cjalL', lambda p, L: p.ctransfer('c.jal', L)),
    ('cbeqzL', lambda p, L: p.ctransfer('c.beqz', L, 9)),
    ('cbnezL', lambda p, L: p.ctransfer('c.bnez', L, 14)),
    ('strEsc', lambda p, L: p.string('a\\nb\\x41\\t', expect=b'a\nbA\t')),
    ('lg1', lambda p, L: p.data('longs', 7)),
    ('lg3', lambda p, L: p.data('longs', 1, -2, 3)),
    ('ll1', lambda p, L: p.data('longlongs', 5)),
    ('in2', lambda p, L: p.data('ints', 3, 4)),
    ('db1', lambda p, L: p.data('db', 200)),
    ('dh1', lambda p, L: p.data('dh', 513)),
    ('ddlit', lambda p, L: p.data('dd', 1 << 40)),
    ('packQ', lambda p, L: p.pack('<Q', 77)),
    ('packH', lambda p, L: p.pack('>H', 0x1234)),
    ('packL', lambda p, L: p.pack('<L', 9)),
    ('packb', lambda p, L: p.pack('<b', -3)),
]


def random_programs(n, rnd, lo=3, hi=12):
    """seeded random programs over the full alphabet, a label at every gap, each label-using item picks a random label"""
    alpha = ALPHABET + ALPHABET_EXTRA
    for t in range(n):
        k = rnd.randint(lo, hi)
        seq = [rnd.randrange(len(alpha)) for _ in range(k)]
        p = Prog('rand:%d:%s' % (t, '-'.join(alpha[i][0] for i in seq)))
        for j, i in enumerate(seq):
            p.label('L%d' % j)
            alpha[i][1](p, 'L%d' % rnd.randint(0, k))
        p.label('L%d' % k)
        yield p


def mixed_programs(k, alphabet=None, limit=None, rnd=None):
    """every sequence of k items over the alphabet (or a seeded sample of `limit`), a label at every gap,
    items referring to labels pick every label in turn by position"""
    alphabet = alphabet or ALPHABET
    seqs = itertools.product(range(len(alphabet)), repeat=k)
    if limit is not None:
        allseq = list(seqs)
        rnd.shuffle(allseq)
        seqs = allseq[:limit]
    for seq in seqs:
        for tsel in range(k + 1):
            p = Prog('mix:%s:t%d' % ('-'.join(alphabet[i][0] for i in seq), tsel))
            for j, i in enumerate(seq):
                p.label('L%d' % j)
                alphabet[i][1](p, 'L%d' % tsel)
            p.label('L%d' % k)
            yield p


def align_programs():
    for n in list(range(1, 18)) + [32, 100, 4096]:
        for r in sorted(set(list(range(0, min(n, 9))) + [n - 1, n, n + 1])):
            p = Prog('align:%d@%d' % (n, r))
            p.label('A')
            if r:
                p.data('bytes', *([7] * r))
            p.label('B')
            p.align(n)
            p.label('C')
            p.data('bytes', 1)
            p.align(n)
            p.align(n)
            p.label('D')
            p.insn('addi', 8, 8, 1)
            p.align(max(1, n - 1))
            p.label('E')
            p.data('dw', ('label', 'C'))
            p.data('dw', ('label', 'E'))
            yield p


LI_VALUES = [0, 1, -1, 5, 31, 32, -32, -33, 2047, 2048, 2049, -2047, -2048, -2049, 4095, 4096, 4097, 0x7ff, 0x800, 0x801,
             0xfff, 0x1000, 0x1800, 0x17ff, 0xfffff000, 0xfffff7ff, 0xfffff800, 0xfffff801, 0x7ffff7ff, 0x7ffff800,
             0x7fffffff, 0x80000000, 0x800007ff, 0x80000800, 0xffffffff, 0xfffffffe, 0x12345678, 0xdeadbeef, -0x80000000,
             -0x7fffffff, 0x100000000 + 5, -0xffffffff, 0x20000, 0x1f000, 0x20000 - 0x1000]


def li_programs():
    for v in LI_VALUES:
        for rd in (5, 2, 8):
            p = Prog('li:%d:x%d' % (v, rd))
            p.label('S')
            p.li(rd, v)
            p.label('E')
            p.insn('addi', 1, 1, 1)
            p.data('dw', ('label', 'E'))
            yield p
    # li of label arithmetic
    for form in ('label', 'position', 'hi', 'lo', 'const'):
        for gap_ in (0, 8, 2040, 2048, 4100):
            p = Prog('li-%s:%d' % (form, gap_))
            p.const('BASE', 0x08000000)
            p.insn('addi', 1, 1, 1)
            v = {'label': ('label', 'T'), 'position': ('position', 'T', 0x08000000), 'hi': ('hi', ('position', 'T', 0x1000)),
                 'lo': ('lo', ('position', 'T', 0x7f0)), 'const': ('const', 'BASE', 0x08000000)}[form]
            p.li(6, v)
            p.filler(gap_)
            p.label('T')
            p.insn('addi', 2, 2, 2)
            yield p


def value_programs():
    """label arithmetic in instructions and data (C08)"""
    for gap_ in [0, 4, 100, 2044, 2048, 5000] + list(range(4060, 4104, 4)) + [8188, 8192]:
        for back in (False, True):
            p = Prog('val:%d:%s' % (gap_, 'back' if back else 'fwd'))
            if back:
                p.label('T')
                p.filler(gap_)
            p.insn('addi', 5, 0, ('lo', ('label', 'T')))
            p.insn('lui', 5, ('hi', ('label', 'T')))
            p.insn('lui', 6, ('hi', ('position', 'T', 0x20000000)))
            p.insn('addi', 6, 6, ('lo', ('position', 'T', 0x20000000)))
            p.insn('auipc', 7, ('hi', ('offset', 'T')))
            p.insn('lw', 8, 7, ('lo', ('offset', 'T')))       # evaluated at this item's own offset
            p.insn('auipc', 8, ('hi', ('offset', 'T')))
            p.insn('addi', 8, 8, ('lo', ('offset', 'T')))     # rd = rs1 in x8..x15: a c.addi / c.mv candidate when the value is small
            p.insn('auipc', 9, ('hi', ('offset', 'T')))
            p.insn('jalr', 0, 9, ('lo', ('offset', 'T'))) if gap_ % 2 == 0 else None
            if gap_ < 2000:
                p.insn('addi', 9, 0, ('offset', 'T'))
                p.insn('addi', 9, 0, ('label', 'T'))
                p.insn('sw', 9, 10, ('label', 'T'))
            p.data('dw', ('label', 'T'))
            p.data('dd', ('position', 'T', 0x100000000))
            p.pack('<I', ('position', 'T', 0x08000000))
            p.pack('<i', ('offset', 'T'))
            p.data('dh', ('label', 'T')) if gap_ < 60000 else None
            p.align(4)
            p.insn('addi', 8, 8, 1)
            if not back:
                p.filler(gap_)
                p.label('T')
            p.insn('addi', 1, 1, 1)
            yield p


def hilo_programs():
    """%hi / %lo of literals, constants and %position expressions over every carry class, each value in its unsigned and
    (from 2**31 up) its negative spelling, consumed by lui/auipc + addi/lw/sw/jalr (C07)"""
    uppers = [0, 1, 2, 0x7fffe, 0x7ffff, 0x80000, 0x80001, 0xffffe, 0xfffff]
    lows = [0, 1, 4, 0x20, 0x24, 0x40, 0x44, 0x7c, 0x80, 0x7fe, 0x7ff, 0x800, 0x801, 0xffe, 0xfff]    # incl. the c.lw / c.sw / c.addi offset bits
    vals = []
    for u in uppers:
        for lo in lows:
            v = (u << 12) | lo
            vals.append(v)
            if v >= 1 << 31:
                vals.append(v - (1 << 32))
    vals += [-1, -2048, -2049, -(1 << 31), -(1 << 31) + 1, (1 << 32) - 1, (1 << 31) - 1]
    for n, v in enumerate(sorted(set(vals))):
        p = Prog('hilo:%d' % v)
        p.const('K', v)
        p.label('anchor')
        p.insn('lui', 5, ('hi', v))
        p.insn('addi', 5, 5, ('lo', v))
        p.insn('lui', 8, ('hi', ('const', 'K', v)))
        p.insn('lw', 9, 8, ('lo', ('const', 'K', v)))
        p.insn('sw', 8, 9, ('lo', ('const', 'K', v)))
        if v % 2 == 0:
            p.insn('jalr', 1, 8, ('lo', v))
        if -(1 << 31) <= v - 16 and v + 16 < (1 << 32):
            p.insn('lui', 6, ('hi', ('position', 'anchor', v)))
            p.insn('addi', 6, 6, ('lo', ('position', 'anchor', v)))
        p.li(7, v)
        yield p


def compress_edge_programs():
    """literal operands on both sides of every RVC operand-set boundary (C20 eligibility, C04 meaning)"""
    # operands written as %hi / %lo of a literal or of a constant, and li (expanded to lui %hi + addi %lo): still literal operands
    p = Prog('cedge:hi-lo-literal')
    p.const('KV', 0x5000)
    for rd in (8, 9, 1, 2, 0):
        for v in (0x5000, 0x1f000, 0x20000, 0x800, 0x7ff, 0xfffe0000, 0xfffdf800, 0x1f7ff, 0x1f800, -4096, 0x12345):
            p.insn('lui', rd, ('hi', v))
            p.insn('addi', rd, rd, ('lo', v))
            if rd:
                p.li(rd, v)
        p.insn('lui', rd, ('hi', ('const', 'KV', 0x5000)))
        p.insn('addi', rd, rd, ('lo', ('const', 'KV', 0x5000)))
    yield p
    def around(vals):
        s = set()
        for v in vals:
            s.update([v - 4, v - 2, v - 1, v, v + 1, v + 2, v + 4])
        return sorted(s)
    regs_all = [0, 1, 2, 3, 7, 8, 9, 15, 16, 31]
    cases = []
    for rd in regs_all:
        for rs1 in (0, 2, rd, 8):
            for imm in around([0, -32, 31, -512, 496, 1020, 16]):
                if -2048 <= imm <= 2047:
                    cases.append(('addi', rd, rs1, imm))
    for rd in regs_all:
        for rs1 in (2, 8, 9, 15, 16, 7):
            for imm in around([0, 124, 252, 128]):
                if -2048 <= imm <= 2047:
                    cases.append(('lw', rd, rs1, imm))
                    cases.append(('sw', rs1, rd, imm))
    for rd in regs_all:
        for imm in around([0, 31, 32, 0xfffe0, 0xfffff, 0x7ffff]) + [-1, -32, -33]:
            if -0x80000 <= imm <= 0xfffff:
                cases.append(('lui', rd, imm))
    for m in ('slli', 'srli', 'srai'):
        for rd in regs_all:
            for rs1 in (rd, 8):
                for sh in (0, 1, 15, 31):
                    cases.append((m, rd, rs1, sh))
    for rd in regs_all:
        for rs1 in (rd, 8, 9):
            for imm in around([-32, 31, 0]):
                cases.append(('andi', rd, rs1, imm))
    for m in ('add', 'sub', 'xor', 'or', 'and'):
        for rd in regs_all:
            for rs1 in (0, rd, 8):
                for rs2 in (0, 8, 15, 16, rd):
                    cases.append((m, rd, rs1, rs2))
    for rd in (0, 1, 5):
        for rs1 in (0, 1, 8):
            for imm in (0, 2, -2):
                cases.append(('jalr', rd, rs1, imm))
    for rd in (0, 1, 5):
        for imm in around([0, -2048, 2046]):
            if imm % 2 == 0:
                cases.append(('jal', rd, imm))
    for m in ('beq', 'bne', 'blt'):
        for rs1 in (7, 8, 15, 16):
            for rs2 in (0, 8):
                for imm in around([0, -256, 254]):
                    if imm % 2 == 0:
                        cases.append((m, rs1, rs2, imm))
    # chunk into programs of 24 instructions
    for i in range(0, len(cases), 24):
        p = Prog('cedge:%d' % i)
        for c in cases[i:i + 24]:
            p.insn(c[0], *c[1:])
        yield p
    # a negative 12-bit immediate written in its unsigned spelling (0xfff for -1): refused by the assembler as it stands; if a
    # version accepts it, the instruction it encodes is what eligibility is judged on (one program each: a refusal is harmless)
    for m, rd, rs1, imm in [('addi', 1, 1, -1), ('addi', 8, 8, -32), ('addi', 5, 0, -1), ('addi', 2, 2, -32), ('addi', 2, 2, -512),
                            ('andi', 8, 8, -1), ('andi', 9, 9, -16), ('addi', 9, 9, -3), ('addi', 10, 0, -32)]:
        p = Prog('cedge:unsigned-spelling:%s:%d:%d:%d' % (m, rd, rs1, imm))
        p.add('%s x%d, x%d, 0x%x' % (m, rd, rs1, imm + 4096), kind='insn', m=m, ops=(rd, rs1, imm), literal=True)
        p.insn('addi', 5, 6, 100)
        yield p
    p = Prog('cedge:ebreak')
    p.add('ebreak', kind='insn', m='ebreak', ops=(), literal=True)
    p.add('ecall', kind='insn', m='ecall', ops=(), literal=True)
    p.pseudo('nop')
    yield p


def pseudo_programs():
    regs = [0, 1, 2, 5, 8, 15, 31]
    p = Prog('pseudo:simple')
    for name, (n, f) in PSEUDO_SIMPLE.items():
        if n == 0:
            p.pseudo(name)
        elif n == 1:
            for r in regs:
                p.pseudo(name, r)
        else:
            for a in regs:
                for b in (0, a, 8, 2):
                    p.pseudo(name, a, b)
    yield p
    for name in list(PSEUDO_BRANCH) + list(PSEUDO_BRANCH2):
        for d in (0, 4, 60, -8, 254, 256, 258, -254, -256, -258, 4000):
            p = Prog('pseudo:%s:%d' % (name, d))
            rs = (8,) if name in PSEUDO_BRANCH else (9, 10)
            if d >= 0:
                p.pbranch(name, 'T', *rs)
                p.filler(d)
                p.label('T')
                p.insn('addi', 1, 1, 1)
            else:
                p.label('T')
                p.filler(-d)
                p.pbranch(name, 'T', *rs)
            yield p


def data_programs():
    widths = {'bytes': 1, 'shorts': 2, 'ints': 4, 'longs': 4, 'longlongs': 8, 'db': 1, 'dh': 2, 'dw': 4, 'dd': 8}
    for d, w in widths.items():
        lo, hi = -(1 << (8 * w - 1)), (1 << (8 * w)) - 1
        vals = [0, 1, -1, lo, lo + 1, hi, hi - 1, (1 << (8 * w - 1)) - 1, 1 << (8 * w - 1), 0x5a]
        p = Prog('data:%s' % d)
        if d.startswith('d'):
            for v in vals:
                p.data(d, v)
        else:
            p.data(d, *vals)
            for v in vals:
                p.data(d, v, 3)
        p.label('E')
        yield p
    # values that do not fit: every one must be refused (one program each)
    for d, w in widths.items():
        lo, hi = -(1 << (8 * w - 1)), (1 << (8 * w)) - 1
        for v in (lo - 1, hi + 1, lo - 2, 2 * lo, 2 * hi + 1, -(1 << (8 * w)), (1 << (8 * w)) + 5, lo - 128, -(1 << (8 * w)) - 1):
            for lead in ((), (1,)) if not d.startswith('d') else ((),):
                p = Prog('data-refuse:%s:%d:%d' % (d, v, len(lead)))
                p.add('%s %s' % (d, ' '.join(str(x) for x in tuple(lead) + (v,))), kind='data', d=d, values=list(lead) + [v], must_refuse=True)
                yield p
    for n, (text, raw) in enumerate([('ab\\n', b'ab\n'), ('\\x41\\x42c', b'ABc'), ('tab\\there', b'tab\there'), ('q\\\\', b'q\\'), ('\\u00e9t\\u00e9', 'été'.encode()),
                                     ('plain', b'plain')]):
        for al in (4, 3, 8):
            p = Prog('data:string-escape:%d:al%d' % (n, al))
            p.string(text, expect=raw)
            p.align(al)
            p.label('AFTER')
            p.data('bytes', 0xaa)
            p.string(text, expect=raw)
            p.label('E')
            p.data('dw', ('label', 'AFTER'))
            yield p
    p = Prog('data:pack')
    for fmt, v in [('<B', 255), ('<b', -128), ('<H', 65535), ('>H', 0x1234), ('<h', -2), ('<I', 0xdeadbeef), ('>I', 0xdeadbeef),
                   ('<i', -5), ('<Q', 2 ** 64 - 1), ('<q', -2 ** 63), ('>q', 7), ('<L', 9), ('<l', -9)]:
        p.pack(fmt, v)
    p.label('E')
    yield p
    p = Prog('data:string')
    for s in ['hello', 'hello world', 'a', 'tab\\there', 'nl\\n', 'quote"inside', "it's", 'hash # not a comment', 'x, y (z)',
              '  leading', 'UPPER lower 123']:
        p.add('string %s' % s, kind='string', bytes=s.encode('utf-8').decode('unicode_escape').encode('utf-8'))
    p.label('E')
    yield p


# ---------------------------------------------------------------------------
# text front end -> encoder (C01 / C02 / C06 stand-in)

ABI = ['zero', 'ra', 'sp', 'gp', 'tp', 't0', 't1', 't2', 's0', 's1', 'a0', 'a1', 'a2', 'a3', 'a4', 'a5', 'a6', 'a7',
       's2', 's3', 's4', 's5', 's6', 's7', 's8', 's9', 's10', 's11', 't3', 't4', 't5', 't6']


def _imm_corners(lo, hi, scale):
    s = {lo, lo + scale, hi, hi - scale, 0, scale, -scale, (lo + hi) // 2 // scale * scale, 5 * scale, -3 * scale}
    legal = sorted(v for v in s if lo <= v <= hi and v % scale == 0)
    illegal = sorted({lo - scale, hi + scale, lo - 1, hi + 1, 2 * hi + 2 * scale, 2 * lo - 2 * scale, 1 << 33, -(1 << 33)} |
                     ({lo + 1, scale // 2 if scale > 1 else lo - 1} if scale > 1 else set()))
    illegal = [v for v in illegal if not (lo <= v <= hi and v % scale == 0)]
    return legal, illegal


def operand_corners(m, role, kind=None):
    """(legal values, illegal values) of one operand, from the specification's legal sets"""
    from spec.ops import PY
    if m.startswith('c.'):
        k = dict(zip(rvc.roles(m), rvc.kinds(m)))[role]
        if k == 'r':
            return [1, 2, 5, 8, 15, 16, 31, 0], [32]
        if k == "r'":
            return [8, 9, 15], [7, 16, 0, 31, 32]
        where = dict((r, w) for r, _, w in rvc.T[m]['ops'])[role]
        n = rvc.imm_bits(where)
        scale = 1 << min(ib for _, ib in rvc.SC[where])
        if k == 'uimm':
            return _imm_corners(0, (1 << n) - 1, scale)
        if k == 'simm':
            return _imm_corners(-(1 << (n - 1)), (1 << (n - 1)) - 1, scale)
        if k == 'lui':
            return [-32, -1, 1, 31, 0xfffe0, 0xfffff, 0, 7], [-33, 32, 0xfffdf, 0x100000, 100]
    else:
        if role in rv32.REG_ROLES:
            return [0, 1, 2, 5, 8, 15, 16, 31], [32]
        if role in ('immI', 'immS', 'csr'):
            return _imm_corners(-2048, 2047, 1)
        if role == 'immIJ':
            return _imm_corners(-2048, 2046, 2)
        if role == 'immB':
            return _imm_corners(-4096, 4094, 2)
        if role == 'immU':
            return [0, 1, -1, -0x80000, 0x7ffff, 0x80000, 0xfffff, 0x12345], [-0x80001, 0x100000, 1 << 33]
        if role == 'immJ':
            return _imm_corners(-(1 << 20), (1 << 20) - 2, 2)
        if role in ('succ', 'pred'):
            return [0, 1, 15, 0b1010], [16, -1, 100]
        if role in ('aq', 'rl'):
            return [0, 1], [2, -1]
    raise KeyError((m, role))


def _legal_tuple(m, vals):
    from spec.ops import PY
    sp = rvc if m.startswith('c.') else rv32
    return bool(sp.legal(PY, m, vals))


def encoder_programs(mnemonics, spellings=('x',)):
    """per mnemonic: one program with every legal corner combination (one operand varied at a time plus a few
    cross combinations), and one single-line program per illegal operand"""
    for m in mnemonics:
        sp = rvc if m.startswith('c.') else rv32
        roles = list(sp.roles(m))
        if not roles:
            p = Prog('enc:%s:legal' % m)
            p.add(m, kind='cinsn' if m.startswith('c.') else 'insn', m=m, ops=(), literal=True, c_source=m.startswith('c.'))
            yield p, True
            continue
        corners = [operand_corners(m, r) for r in roles]
        base = [c[0][len(c[0]) // 2] for c in corners]
        # find a legal base tuple
        import itertools as _it
        for cand in _it.product(*[c[0] for c in corners]):
            if _legal_tuple(m, list(cand)):
                base = list(cand)
                break
        legal_tuples = []
        for i, (lg, il) in enumerate(corners):
            for v in lg:
                t = list(base)
                t[i] = v
                if _legal_tuple(m, t) and t not in legal_tuples:
                    legal_tuples.append(t)
        for sp_i, spelling in enumerate(spellings):
            p = Prog('enc:%s:legal:%s' % (m, spelling))
            for t in legal_tuples:
                _enc_line(p, m, t, spelling)
            yield p, True
        seen = set()
        for i, (lg, il) in enumerate(corners):
            for v in list(il) + [x for x in lg]:
                t = list(base)
                t[i] = v
                if _legal_tuple(m, t) or tuple(t) in seen:
                    continue
                seen.add(tuple(t))
                p = Prog('enc:%s:illegal:%s=%s' % (m, roles[i], v))
                _enc_line(p, m, t, 'x')
                yield p, False


def _regtext(n, spelling):
    if spelling == 'abi' and 0 <= n < 32:
        return ABI[n]
    if spelling == 'num':
        return str(n)
    if spelling == 'hex':
        return hex(n)
    return 'x%d' % n


def _enc_line(p, m, t, spelling):
    sp = rvc if m.startswith('c.') else rv32
    roles = sp.roles(m)
    kinds = rvc.kinds(m) if m.startswith('c.') else None
    parts = []
    for i, (r, v) in enumerate(zip(roles, t)):
        isreg = (kinds[i] in ('r', "r'")) if kinds else (r in ('rd', 'rs1', 'rs2'))
        pcrel = r in ('immB', 'immJ') or m in ('c.j', 'c.jal', 'c.beqz', 'c.bnez')     # a NAME there is a location (label-like), not an offset
        if spelling == 'const' and not isreg and not pcrel and r not in ('pred', 'succ', 'aq', 'rl'):
            # the operand named through a constant (docs: constants substitute transparently); defined right before the line
            name = 'K%d_%d' % (len(p.recs), i)
            p.const(name, v)
            parts.append(name)
        elif spelling == 'const' and isreg and 0 <= v < 32:
            name = 'R%d_%d' % (len(p.recs), i)
            p.add('%s = x%d' % (name, v), kind='const', name=name, value=v)
            parts.append(name)
        else:
            parts.append(_regtext(v, 'x' if spelling == 'const' else spelling) if isreg else str(v))
    text = ('%s %s' % (m, ', '.join(parts))).strip()
    if m.startswith('c.'):
        p.add(text, kind='cinsn', m=m, ops=tuple(t), c_source=True)
    else:
        p.add(text, kind='insn', m=m, ops=tuple(t), literal=True)
