"""C14 / C10 stand-in: generated include trees x working directories, API and CLI, against the hand-spliced
single file.  include_bytes files in sibling and -i directories with same-named decoys in the working directory."""
import itertools
import os
import shutil
import subprocess
import tempfile

from pyvc import REPO, REPO_PY
from pyvc.real import real

BODY = {
    'main_pre': ['MAINC = 3', 'start:', '    addi x8, x8, MAINC', '    li t0, 0x12345'],
    'main_post': ['    call helper', '    j start', 'end:', '    dw end'],
    'lvl1_pre': ['L1C = 10', 'helper:', '    addi x9, x9, L1C'],
    'lvl1_post': ['    beqz x9, helper', '    ret'],
    'lvl2_pre': ['L2B = 5', 'L2C = L2B + 6', 'deep:', '    addi x10, x10, L2C'],
    'lvl2_post': ['    bnez x10, deep'],
    'lvl3': ['L3B = 11', 'L3C = L3B * 2', 'deepest:', '    addi x11, x11, L3C', '    string deep'],
}


def build_tree(root, layout, depth, position, quote, with_bytes):
    """returns (main path, include_dirs, spliced source text, blobs {name: bytes})"""
    dirs = {'main': os.path.join(root, 'proj', 'src'), 'inc': os.path.join(root, 'inc'), 'sub': os.path.join(root, 'proj', 'src', 'sub'),
            'parent': os.path.join(root, 'proj'), 'decoy': os.path.join(root, 'cwd_decoy'), 'other': os.path.join(root, 'unrelated')}
    for d in dirs.values():
        os.makedirs(d, exist_ok=True)
    q = {'none': '%s', 'double': '"%s"', 'single': "'%s'"}[quote]
    # where each level's file lives and how the including line names it
    where = {'sibling': ('main', 'lvl1.asm'), 'subdir': ('sub', 'sub/lvl1.asm'), 'parent': ('parent', '../lvl1.asm'), 'incdir': ('inc', 'lvl1.asm')}[layout]
    include_dirs = [dirs['inc']]
    blobs = {}
    lvl3 = list(BODY['lvl3'])
    if with_bytes:
        blob = bytes(range(1, 12))
        open(os.path.join(dirs[where[0]], 'blob.bin'), 'wb').write(blob)            # next to the level-1 file... only if depth>=1
        open(os.path.join(dirs['decoy'], 'blob.bin'), 'wb').write(bytes(range(101, 112)))   # same name and size, other content
        open(os.path.join(dirs['inc'], 'incblob.bin'), 'wb').write(b'INCDIR-BLOB!')
        open(os.path.join(dirs['decoy'], 'incblob.bin'), 'wb').write(b'DECOY--BLOB!')
    files = {}
    # deepest first: each level's lines, with the include of the next level placed at `position`
    def place(pre, post, inc_line):
        if inc_line is None:
            return pre + post
        return {'first': [inc_line] + pre + post, 'middle': pre + [inc_line] + post, 'last': pre + post + [inc_line]}[position]
    l3_lines = lvl3
    l2_inc = ('include ' + q % 'lvl3.asm') if depth >= 3 else None
    l2_lines = place(BODY['lvl2_pre'], BODY['lvl2_post'], l2_inc)
    l1_inc = ('include ' + q % 'lvl2.asm') if depth >= 2 else None
    l1_pre = list(BODY['lvl1_pre'])
    l1_post = list(BODY['lvl1_post'])
    if with_bytes and depth >= 1:
        l1_post = l1_post + ['blobdata:', 'include_bytes blob.bin', 'include_bytes incblob.bin', 'afterblob:', '    align 4']
    l1_lines = place(l1_pre, l1_post, l1_inc)
    main_inc = ('include ' + q % where[1]) if depth >= 1 else None
    main_lines = place(BODY['main_pre'], BODY['main_post'] if depth >= 1 else ['    j start', 'end:', '    dw end'], main_inc)
    level_dir = dirs[where[0]]
    if depth >= 1:
        open(os.path.join(level_dir, 'lvl1.asm'), 'w').write('\n'.join(l1_lines) + '\n')
    if depth >= 2:
        open(os.path.join(level_dir, 'lvl2.asm'), 'w').write('\n'.join(l2_lines) + '\n')          # relative to the including file
    if depth >= 3:
        open(os.path.join(dirs['inc'], 'lvl3.asm'), 'w').write('\n'.join(l3_lines) + '\n')        # found through -i
    # decoys with the same names in the working directory and in an unrelated directory
    for name in ('lvl1.asm', 'lvl2.asm', 'lvl3.asm'):
        for dd in ('decoy', 'other'):
            open(os.path.join(dirs[dd], name), 'w').write('decoy_%s:\n    addi x1, x1, 99\n' % name.split('.')[0])
    # a same-named file next to an ANCESTOR of the including file must not win over the file next to the including file
    if layout in ('subdir', 'parent', 'incdir'):
        for name in ('lvl2.asm',):
            if depth >= 2:
                open(os.path.join(dirs['main'], name), 'w').write('ancestor_decoy:\n    addi x2, x2, 77\n')
    main = os.path.join(dirs['main'], 'main.asm')
    open(main, 'w').write('\n'.join(main_lines) + '\n')

    def splice(lines, level):
        out = []
        for ln in lines:
            if ln.startswith('include '):
                nxt = {0: l1_lines, 1: l2_lines, 2: l3_lines}[level]
                out += splice(nxt, level + 1)
            else:
                out.append(ln)
        return out
    spliced = splice(main_lines, 0)
    return main, include_dirs, spliced, dirs


def expected_bytes(spliced, dirs, where_dir):
    """assemble the hand-spliced text with include_bytes lines replaced by the bytes of the RIGHT files"""
    out = []
    for ln in spliced:
        if ln.startswith('include_bytes blob.bin'):
            out.append('bytes ' + ' '.join(str(b) for b in range(1, 12)))
        elif ln.startswith('include_bytes incblob.bin'):
            out.append('bytes ' + ' '.join(str(b) for b in b'INCDIR-BLOB!'))
        else:
            out.append(ln)
    return '\n'.join(out) + '\n'


def run_all(ctx, tier, props=('C14', 'C10')):
    root = tempfile.mkdtemp(prefix='bbinc_')
    r = real()
    try:
        ctx.b_rule('includes: include trees of depth 0-3 (file next to the including file, in a subdirectory, in the parent, in a -i directory; the '
                   'include line first / middle / last; names bare, double- or single-quoted; same-named decoys in the working directory and in an '
                   'unrelated directory), with and without include_bytes (same-named same-size decoy in the cwd), assembled through the API and the '
                   'CLI from 3 working directories, compared with the hand-spliced single file')
        combos = itertools.product(('sibling', 'subdir', 'parent', 'incdir'), (0, 1, 2, 3), ('first', 'middle', 'last'), ('none', 'double', 'single'), (False, True))
        n = 0
        for layout, depth, position, quote, with_bytes in combos:
            if tier == 'quick' and ((quote != 'none' and (depth != 1 or position != 'middle')) or (position == 'last' and depth == 3 and layout != 'sibling')):
                continue
            n += 1
            work = tempfile.mkdtemp(prefix='t_', dir=root)
            main, incdirs, spliced, dirs = build_tree(work, layout, depth, position, quote, with_bytes)
            exp_src = expected_bytes(spliced, dirs, None)
            for compress in (False, True):
                exp = r.assemble(exp_src, compress=compress)
                if 'ok' not in exp:
                    ctx.errors.append('includes harness: the hand-spliced program does not assemble: %s' % str(exp)[:200]) if hasattr(ctx, 'errors') else None
                    continue
                for cwd in (dirs['decoy'], dirs['main'], '/'):
                    got = r.assemble(main, compress=compress, include_dirs=incdirs, cwd=cwd)
                    case = '%s|d%d|%s|%s|bytes%d|c%d|cwd=%s' % (layout, depth, position, quote, with_bytes, compress, os.path.basename(cwd) or '/')
                    ctx.b_eval('includes', case, nontrivial=True, sample={'case': case})
                    same = ('ok' in exp and got.get('ok') == exp['ok'] and got.get('labels') == exp['labels'] and got.get('constants') == exp['constants'])
                    if not same:
                        prop = 'C10' if (with_bytes and depth >= 1 and 'ok' in got and got.get('labels') == exp.get('labels')) or \
                            (with_bytes and got.get('exc') in ('FileNotFoundError', 'AssertionError')) else 'C14'
                        if prop in props or (with_bytes and 'C10' in props):
                            ctx.violation('bounded/includes', 'include:%s' % ('bytes' if prop == 'C10' else 'splice'),
                                          '%s: including differs from the hand-spliced program: %s vs %s' % (case, str({k: got.get(k) for k in ('ok', 'exc', 'msg')})[:160], str(exp.get('ok'))[:60]),
                                          {'case': case, 'main': open(main).read(), 'spliced': exp_src, 'cwd': cwd, 'got': got, 'expected': exp}, confirmed=True)
                # CLI from a foreign working directory
                if tier == 'thorough' or (n % 4 == 0 and not compress):
                    outp = os.path.join(work, 'out.bin')
                    code = "import sys; sys.path.insert(0, %r); sys.argv[0]='bronzebeard'; from bronzebeard.asm import cli_main; cli_main()" % REPO
                    rel_main = os.path.relpath(main, dirs['decoy'])
                    rel_inc = os.path.relpath(incdirs[0], dirs['decoy'])
                    p = subprocess.run([REPO_PY, '-c', code, rel_main, '-i', rel_inc, '-o', outp] + (['-c'] if compress else []),
                                       cwd=dirs['decoy'], capture_output=True, text=True)
                    ctx.b_eval('includes', 'cli|' + case, nontrivial=True)
                    ok = p.returncode == 0 and 'ok' in exp and open(outp, 'rb').read().hex() == exp['ok']
                    if not ok:
                        ctx.violation('bounded/includes', 'include:cli', '%s via the CLI (relative paths, cwd with decoys): exit %d %s' % (case, p.returncode, p.stderr[-200:]),
                                      {'case': case, 'main': open(main).read(), 'stderr': p.stderr[-400:]}, confirmed=True)
            shutil.rmtree(work, ignore_errors=True)
        if 'C14' in props:
            repeated_includes(ctx, r, root)
        symlinked_source_dir(ctx, r, root, props)
    finally:
        shutil.rmtree(root, ignore_errors=True)


def symlinked_source_dir(ctx, r, root, props):
    """the source directory is reached through a symbolic link and the include path climbs out of it with `..`: the file the
    operating system finds (link resolved first) is the one that is spliced / embedded - not the one a textual collapse of
    `link/..` would name (a same-sized decoy sits there)"""
    ctx.b_rule('includes-symlink: sources under a symlinked directory, include / include_bytes of ../x with a same-sized decoy at the textually collapsed path')
    work = tempfile.mkdtemp(prefix='l_', dir=root)
    real_src = os.path.join(work, 'releases', 'v2', 'src')
    os.makedirs(real_src)
    os.makedirs(os.path.join(work, 'releases', 'v2', 'assets'))
    os.makedirs(os.path.join(work, 'assets'))
    try:
        os.symlink(os.path.join('releases', 'v2', 'src'), os.path.join(work, 'current'))
    except OSError:
        return
    open(os.path.join(work, 'releases', 'v2', 'assets', 'logo.bin'), 'wb').write(b'REAL-LOGO!')
    open(os.path.join(work, 'assets', 'logo.bin'), 'wb').write(b'DECOY-LOGO')
    open(os.path.join(work, 'releases', 'v2', 'assets', 'defs.asm'), 'w').write('real_defs:\n    addi x5, x5, 1\n')
    open(os.path.join(work, 'assets', 'defs.asm'), 'w').write('decoy_defs:\n    addi x6, x6, 2\n')
    open(os.path.join(real_src, 'main.asm'), 'w').write('start:\ninclude ../assets/defs.asm\ninclude_bytes ../assets/logo.bin\n    align 4\n    j start\n')
    exp_src = 'start:\nreal_defs:\n    addi x5, x5, 1\nbytes %s\n    align 4\n    j start\n' % ' '.join(str(b) for b in b'REAL-LOGO!')
    main = os.path.join(work, 'current', 'main.asm')
    for compress in (False, True):
        exp = r.assemble(exp_src, compress=compress)
        for cwd in (work, '/'):
            got = r.assemble(main, compress=compress, cwd=cwd)
            case = 'symlink|c%d|cwd=%s' % (compress, os.path.basename(cwd) or '/')
            ctx.b_eval('includes', case, nontrivial=True, sample={'case': case})
            if 'ok' in exp and not (got.get('ok') == exp['ok'] and got.get('labels') == exp['labels']):
                bytes_only = got.get('labels') == exp.get('labels') or got.get('exc') in ('FileNotFoundError', 'AssertionError')
                prop = 'C10' if bytes_only else 'C14'
                if prop in props or 'C10' in props:
                    ctx.violation('bounded/includes', 'include:%s' % ('bytes' if prop == 'C10' else 'splice'),
                                  '%s: a source directory behind a symbolic link: %s vs expected %s' % (case, str({k: got.get(k) for k in ('ok', 'exc', 'msg')})[:160], str(exp.get('ok'))[:60]),
                                  {'case': case, 'tree': 'current -> releases/v2/src ; include ../assets/... ; decoys in <root>/assets', 'got': got, 'expected': exp}, confirmed=True)
    shutil.rmtree(work, ignore_errors=True)


SNIP = ['N = N + 1', 'snip_mark:', '    addi x5, x5, N', '    pack <I N', '    c.addi x8, 1']
SPELLINGS = ['snip.asm', './snip.asm', 'sub/../snip.asm', '../proj/snip.asm', 'sub/deep/../../snip.asm', '"snip.asm"']


def repeated_includes(ctx, r, root):
    """the same file included several times (a macro-like snippet; labels and constants may be redefined), through every pair /
    triple of spellings of its path, and as a diamond (two files that both include it): each include line is replaced by the
    file's lines every time"""
    ctx.b_rule('includes-repeated: one snippet included 2 and 3 times through %d spellings of its path (bare, ./, sub/../, ../proj/, quoted), '
               'and a diamond (main includes a and b, both include the snippet, a from a subdirectory), compared with the hand-spliced text' % len(SPELLINGS))
    cases = [(a, b) for a in SPELLINGS for b in SPELLINGS] + [(a, a, a) for a in SPELLINGS] + [('snip.asm', '../proj/snip.asm', 'snip.asm')]
    for k, names in enumerate(cases + ['diamond', 'nested-twice']):
        work = tempfile.mkdtemp(prefix='r_', dir=root)
        proj = os.path.join(work, 'proj')
        os.makedirs(os.path.join(proj, 'sub', 'deep'))
        open(os.path.join(proj, 'snip.asm'), 'w').write('\n'.join(SNIP) + '\n')
        head = ['N = 0', 'start:', '    addi x1, x1, 1']
        if names == 'diamond':
            open(os.path.join(proj, 'sub', 'a.asm'), 'w').write('a_lbl:\ninclude ../snip.asm\n    addi x2, x2, 2\n')
            open(os.path.join(proj, 'b.asm'), 'w').write('b_lbl:\ninclude snip.asm\n    addi x3, x3, 3\n')
            main_lines = head + ['include sub/a.asm', 'include b.asm', 'end:']
            spliced = head + ['a_lbl:'] + SNIP + ['    addi x2, x2, 2', 'b_lbl:'] + SNIP + ['    addi x3, x3, 3', 'end:']
        elif names == 'nested-twice':
            open(os.path.join(proj, 'twice.asm'), 'w').write('include snip.asm\ninclude snip.asm\n')
            main_lines = head + ['include twice.asm', 'include twice.asm', 'include snip.asm', 'end:']
            spliced = head + SNIP * 5 + ['end:']
        else:
            main_lines = list(head)
            spliced = list(head)
            for nm in names:
                main_lines += ['include ' + nm, '    addi x4, x4, 4']
                spliced += SNIP + ['    addi x4, x4, 4']
            main_lines.append('end:')
            spliced.append('end:')
        main = os.path.join(proj, 'main.asm')
        open(main, 'w').write('\n'.join(main_lines) + '\n')
        exp_src = '\n'.join(spliced) + '\n'
        for compress in (False, True):
            exp = r.assemble(exp_src, compress=compress)
            if 'ok' not in exp:
                if hasattr(ctx, 'errors'):
                    ctx.errors.append('includes harness: the hand-spliced repeated program does not assemble: %s' % str(exp)[:200])
                continue
            for cwd in (proj, '/'):
                got = r.assemble(main, compress=compress, cwd=cwd)
                case = 'repeated|%s|c%d|cwd=%s' % (names if isinstance(names, str) else '+'.join(names), compress, os.path.basename(cwd) or '/')
                ctx.b_eval('includes', case, nontrivial=True, sample={'case': case})
                if not (got.get('ok') == exp['ok'] and got.get('labels') == exp['labels'] and got.get('constants') == exp['constants']):
                    ctx.violation('bounded/includes', 'include:splice', '%s: including differs from the hand-spliced program: %s vs %s' % (
                        case, str({k2: got.get(k2) for k2 in ('ok', 'exc', 'msg')})[:160], str(exp.get('ok'))[:60]),
                        {'case': case, 'main': open(main).read(), 'spliced': exp_src, 'cwd': cwd, 'got': got, 'expected': exp}, confirmed=True)
        shutil.rmtree(work, ignore_errors=True)


def replay(ctx, d, model):
    class C:
        seed = 0

        def __init__(self):
            self.found = []

        def b_rule(self, t):
            pass

        def b_eval(self, *a, **k):
            pass

        def violation(self, obligation, key, what, replay, confirmed=True, source='bounded'):
            self.found.append((key, what, replay))
    c = C()
    run_all(c, 'quick')
    if not c.found:
        return None
    key, what, rep = c.found[0]
    return {'confirmed': True, 'key': key, 'what': what, 'input': rep}
