#!/bin/bash
# offline setup: verifies the tooling the checks need; builds nothing from the network
set -e
cd "$(dirname "$0")"
python3-vt -c "import z3, sys; assert z3.get_version_string()" 
/venv/bin/python -c "import sys; sys.path.insert(0, '${BRONZEBEARD_REPO:-/repo}'); import bronzebeard.asm"
mkdir -p evidence replays
echo setup ok
